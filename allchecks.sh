#!/bin/bash
# allchecks.sh : run every registered property check against a scratch worktree of /repo HEAD (leaves /repo free for editing)
export GOFLAGS=-mod=mod GOPROXY=off GOSUMDB=off GOTOOLCHAIN=local
wt=/tmp/allchk_wt
git -C /repo worktree remove --force $wt >/dev/null 2>&1; rm -rf $wt
git -C /repo worktree add --detach $wt HEAD -q || exit 2
props=${*:-$(python3 -c "import json;print(\" \".join(sorted(json.load(open(\"/verif/obligations.json\")).keys())))")}
for p in $props; do
  /verif/bin/govc check --property $p --repo $wt --out /tmp/allchk_out > /tmp/allchk_$p.log 2>&1
  echo "$p exit=$? $(grep -E 'VIOLATION|obligations,' /tmp/allchk_$p.log | cut -c1-260 | tr '\n' ' ')"
done
rm -rf /tmp/allchk_out
git -C /repo worktree remove --force $wt
