#!/bin/bash
# scr.sh <patch.diff | -s file sedexpr> -- <govc func patterns...> : scratch worktree of /repo HEAD + the working tree's contract files, mutated
set -e
git -C /repo worktree remove --force /tmp/scr >/dev/null 2>&1 || true
rm -rf /tmp/scr
git -C /repo worktree add --detach /tmp/scr HEAD -q
(cd /repo && for f in $(git ls-files -m -o --exclude-standard | grep verif_contracts); do mkdir -p /tmp/scr/$(dirname $f); cp $f /tmp/scr/$f; done)
if [ "$1" = "-s" ]; then
  f=$2; e=$3; shift 3
  cp /tmp/scr/$f /tmp/scr_orig; sed -i "$e" /tmp/scr/$f
  if cmp -s /tmp/scr/$f /tmp/scr_orig; then echo "MUTATION DID NOT APPLY"; git -C /repo worktree remove --force /tmp/scr; exit 3; fi
  diff /tmp/scr_orig /tmp/scr/$f | head -6 || true
else
  (cd /tmp/scr && git apply $1); shift
fi
[ "$1" = "--" ] && shift
export GOFLAGS=-mod=mod GOPROXY=off GOSUMDB=off GOTOOLCHAIN=local
(cd /tmp/scr && go build ./... ) || { echo "DOES NOT COMPILE"; git -C /repo worktree remove --force /tmp/scr; exit 4; }
${GOVC:-/verif/bin/govc} func -repo /tmp/scr "$@" 2>&1 | grep -E "FAIL|UNSUPP|clause|unreachable|^==" | cut -c1-250 || true
git -C /repo worktree remove --force /tmp/scr
rm -f /tmp/scr_orig
