#!/usr/bin/env python3
"""Regenerates the generated tables of DESIGN.md (between the GENERATED markers) from obligations.json and seeded/*/meta.json."""
import json, glob, os, re
obl = json.load(open('/verif/obligations.json'))
lines = ["", "#### Functions under contract (labelled clauses per property)", "", "| property | functions (number of labelled obligations) |", "|---|---|"]
for p in sorted(obl):
    per = {}
    for o in obl[p]:
        fn = o.split('#')[0]
        per[fn] = per.get(fn, 0) + 1
    lines.append("| %s | %s |" % (p, "; ".join("`%s` (%d)" % (f, n) for f, n in sorted(per.items()))))
lines += ["", "#### Seeded changes", "", "| seed | property | detected by the quick check | first failing obligations |", "|---|---|---|---|"]
for d in sorted(x for x in glob.glob('/verif/seeded/*') if not x.split('/')[-1].startswith('_')):
    m = json.load(open(d + '/meta.json'))
    outs = [re.sub(r'.*replays/[^/]*/', '', l).split('.json')[0].replace('__', '(*').replace('_.', ').', 1) for l in m.get('check_output', []) if 'VIOLATION' in l and '/none.json' not in l]
    lines.append("| %s | %s | %s | %s |" % (os.path.basename(d), m['property'], "yes" if m.get('detected_by_check') else "**no**", "; ".join("`%s`" % o for o in outs[:3]) + (" …" if len(outs) > 3 else "")))
gen = "\n".join(lines) + "\n"
s = open('/verif/DESIGN.md').read()
a, b = '<!-- GENERATED:BEGIN -->', '<!-- GENERATED:END -->'
s = s[:s.index(a) + len(a)] + "\n" + gen + s[s.index(b):]
open('/verif/DESIGN.md', 'w').write(s)
print("tables regenerated")
