#!/bin/bash
# seeds_regress.sh [name-glob]  -- must-fail corpus: every seeded change under /verif/seeded is applied to a
# scratch worktree of /repo HEAD (never to /repo) and the property's quick check is run against it.
# Prints one line per seed: DETECTED / MISSED (+ the violated obligations), and updates meta.json.
set -u
export GOFLAGS=-mod=mod GOPROXY=off GOSUMDB=off GOTOOLCHAIN=local
glob=${1:-*}
jobs=${JOBS:-4}
one() {
  d=$1; name=$(basename $d)
  prop=$(python3 -c "import json;print(json.load(open('$d/meta.json'))['property'])")
  wt=/tmp/seedreg_$name
  git -C /repo worktree remove --force $wt >/dev/null 2>&1
  git -C /repo worktree add --detach $wt HEAD -q || { echo "[$name] worktree failed"; return; }
  if ! git -C $wt apply $d/patch.diff 2>/tmp/seedreg_$name.err; then
    echo "[$name] $prop PATCH-DOES-NOT-APPLY $(head -1 /tmp/seedreg_$name.err)"
    git -C /repo worktree remove --force $wt; return
  fi
  out=$(/verif/bin/govc check --property $prop --repo $wt --out /tmp/seedreg_out_$name 2>&1 | grep -E "VIOLATION|KNOWN|obligations,|panic|error")
  rm -rf /tmp/seedreg_out_$name
  git -C /repo worktree remove --force $wt
  n=$(echo "$out" | grep VIOLATION | grep -vc "/none.json")
  if [ $n -gt 0 ]; then verdict=DETECTED; else verdict=MISSED; fi
  echo "[$name] $prop $verdict $(echo "$out" | grep VIOLATION | sed 's/.*replays\/[^/]*\///; s/\.json.*//' | tr '\n' ' ')"
  python3 - <<PY
import json
p='$d/meta.json'
m=json.load(open(p))
m['detected_by_check']=$n>0
m['check_output']="""$out""".splitlines()
json.dump(m,open(p,'w'),indent=1)
PY
}
export -f one
ls -d /verif/seeded/$glob | grep -v "/_" | xargs -P $jobs -I{} bash -c 'one {}'
