#!/bin/bash
# seedcheck.sh <name> <srcdir> <property> <demo-dest-dir> <demo-run-regex> [full]
# 1. confirms the seeded change in a scratch worktree of /repo HEAD: compiles, (suite green if "full"), demo fails with / passes without
# 2. stores it under /verif/seeded/<name>/
# 3. applies it to /repo, runs the property's quick check, and undoes it
set -u
export GOFLAGS=-mod=mod GOPROXY=off GOSUMDB=off GOTOOLCHAIN=local
name=$1; src=$2; prop=$3; dest=$4; run=$5; full=${6:-}
wt=/tmp/seedchk_$name
git -C /repo worktree remove --force $wt >/dev/null 2>&1
git -C /repo worktree add --detach $wt HEAD -q || exit 2
cd $wt
res_apply=ok
git apply $src/patch.diff || res_apply=FAILED
build=ok; (go build ./... ) >/dev/null 2>&1 || build=FAILED
suite=skipped
if [ "$full" = full ]; then
  suite=green; go test -vet=off -count=1 ./... >/tmp/seedchk_$name.log 2>&1 || suite=RED
fi
cp $src/demo_test.go $dest/zz_seed_demo_test.go
with=passes; go test -vet=off -count=1 -timeout 300s -run "$run" ./$dest/ >/tmp/seedchk_$name.with.log 2>&1 || with=fails
# our check, on the scratch worktree with the change applied (evidence goes to a scratch directory)
out=$(/verif/bin/govc check --property $prop --repo $wt --out /tmp/govc-scratch-$name 2>&1 | grep -E "VIOLATION|KNOWN|obligations," )
rm -rf /tmp/govc-scratch-$name
git apply -R $src/patch.diff
without=passes; go test -vet=off -count=1 -timeout 300s -run "$run" ./$dest/ >/tmp/seedchk_$name.without.log 2>&1 || without=fails
cd /verif
git -C /repo worktree remove --force $wt
echo "[$name] apply=$res_apply build=$build suite=$suite demo-with-patch=$with demo-without-patch=$without"
mkdir -p /verif/seeded/$name
cp $src/patch.diff /verif/seeded/$name/patch.diff
cp $src/demo_test.go /verif/seeded/$name/demo_test.go
cp $src/NOTES.md /verif/seeded/$name/NOTES.md
echo "$out" | sed "s/^/[$name] /"
viol=$(echo "$out" | grep -c VIOLATION)
python3 - <<PY
import json
json.dump({"property":"$prop","name":"$name","demo_dest":"$dest/zz_seed_demo_test.go","demo_run":"go test -vet=off -count=1 -run '$run' ./$dest/",
 "confirmed":{"applies":"$res_apply","builds":"$build","suite":"$suite","demo_with_patch":"$with","demo_without_patch":"$without"},
 "detected_by_check": $viol>0, "check_output": """$out""".splitlines()}, open('/verif/seeded/$name/meta.json','w'), indent=1)
PY
