// Replay of the failing obligations (*OpenIDConnectDeviceHandler).PopulateTokenEndpointResponse#C14.oidc-session-consumed and
// #C20.no-complete-code-as-storage-key @call(DeleteOpenIDConnectSession) on the real code: the OpenID Connect session of a
// device grant is looked up under the device code's signature but deleted under the COMPLETE device code, so it is never
// removed (and the complete code is handed to the storage layer as a key). Injected with go test -overlay into package openid.
package openid

import (
	"context"
	"net/url"
	"testing"
	"time"

	"github.com/ory/fosite"
	"github.com/ory/fosite/handler/rfc8628"
	"github.com/ory/fosite/storage"
	"github.com/ory/fosite/token/hmac"
	"github.com/ory/fosite/token/jwt"
)

func TestVerifReplayC14DeviceOIDCSessionConsumed(t *testing.T) {
	ctx := context.Background()
	store := storage.NewMemoryStore()
	config := &fosite.Config{MinParameterEntropy: fosite.MinParameterEntropy, DeviceAndUserCodeLifespan: time.Hour, IDTokenLifespan: time.Hour, GlobalSecret: []byte("some-super-cool-secret-that-nobody-knows-nobody-knows")}
	strat := &rfc8628.DefaultDeviceStrategy{Enigma: &hmac.HMACStrategy{Config: config}, Config: config}
	h := OpenIDConnectDeviceHandler{
		OpenIDConnectRequestStorage: store,
		DeviceCodeStrategy:          strat,
		Config:                      config,
		IDTokenHandleHelper: &IDTokenHandleHelper{IDTokenStrategy: &DefaultStrategy{
			Signer: &jwt.DefaultSigner{GetPrivateKey: func(ctx context.Context) (interface{}, error) { return key, nil }},
			Config: config,
		}},
	}
	client := &fosite.DefaultClient{ID: "tv", GrantTypes: fosite.Arguments{"urn:ietf:params:oauth:grant-type:device_code"}}
	session := &DefaultSession{Claims: &jwt.IDTokenClaims{Subject: "peter"}, Headers: &jwt.Headers{}, Subject: "peter"}

	deviceCode, signature, err := strat.GenerateDeviceCode(ctx)
	if err != nil {
		t.Fatal(err)
	}
	stored := fosite.NewRequest()
	stored.Client = client
	stored.Session = session
	stored.GrantedScope = fosite.Arguments{"openid"}
	// what the application does when the user approves: the session is stored under the signature (that is where the
	// handler looks it up)
	if err := store.CreateOpenIDConnectSession(ctx, signature, stored); err != nil {
		t.Fatal(err)
	}

	areq := fosite.NewAccessRequest(session)
	areq.GrantTypes = fosite.Arguments{"urn:ietf:params:oauth:grant-type:device_code"}
	areq.Client = client
	areq.Form = url.Values{"device_code": {deviceCode}}
	aresp := fosite.NewAccessResponse()
	aresp.SetAccessToken("some-access-token")
	if err := h.PopulateTokenEndpointResponse(ctx, areq, aresp); err != nil {
		t.Fatalf("populate failed: %v", err)
	}
	if aresp.GetExtra("id_token") == nil {
		t.Fatalf("expected an id token")
	}
	if _, err := store.GetOpenIDConnectSession(ctx, signature, areq); err == nil {
		t.Fatalf("VIOLATED: the OpenID Connect session of the redeemed device code is still stored (it was deleted under the complete device code %q..., not under its signature)", deviceCode[:12])
	}
}
