// Replay of the failing obligation (*MemoryStore).RevokeAccessToken#C08.store-revokes-every-token-of-request on the real code.
// The hybrid flow (response_type "code token") issues an access token at the authorization endpoint and a second one when
// the code is redeemed; both records carry the request id of the authorization request. Revoking by request id (what the
// revocation endpoint, code-replay detection and refresh-reuse detection all do) must kill the whole grant, but
// MemoryStore's request-id index remembers only the latest signature. Injected with go test -overlay into package openid.
package openid

import (
	"context"
	"net/url"
	"testing"
	"time"

	"github.com/ory/fosite"
	"github.com/ory/fosite/handler/oauth2"
	"github.com/ory/fosite/storage"
	"github.com/ory/fosite/token/hmac"
	"github.com/ory/fosite/token/jwt"
)

func TestVerifReplayC08RevokeByRequestIDKillsWholeGrant(t *testing.T) {
	ctx := context.Background()
	store := storage.NewMemoryStore()
	config := &fosite.Config{ScopeStrategy: fosite.HierarchicScopeStrategy, MinParameterEntropy: fosite.MinParameterEntropy, AccessTokenLifespan: time.Hour, AuthorizeCodeLifespan: time.Hour, RefreshTokenLifespan: time.Hour, GlobalSecret: []byte("some-super-cool-secret-that-nobody-knows-nobody-knows")}
	strat := oauth2.NewHMACSHAStrategy(&hmac.HMACStrategy{Config: config}, config)
	explicit := &oauth2.AuthorizeExplicitGrantHandler{AuthorizeCodeStrategy: strat, AccessTokenStrategy: strat, RefreshTokenStrategy: strat, CoreStorage: store, TokenRevocationStorage: store, Config: config}
	h := makeOpenIDConnectHybridHandler(fosite.MinParameterEntropy)
	h.AuthorizeExplicitGrantHandler = explicit
	h.AuthorizeImplicitGrantTypeHandler.AccessTokenStorage = store
	h.AuthorizeImplicitGrantTypeHandler.AccessTokenStrategy = strat
	h.OpenIDConnectRequestStorage = store

	client := &fosite.DefaultClient{ID: "app", GrantTypes: fosite.Arguments{"authorization_code", "implicit"}, ResponseTypes: fosite.Arguments{"token code"}, Scopes: []string{"openid"}, RedirectURIs: []string{"https://foobar.com"}}
	areq := fosite.NewAuthorizeRequest()
	areq.Form = url.Values{"redirect_uri": {"https://foobar.com"}, "nonce": {"some-foobar-nonce-win"}}
	areq.ResponseTypes = fosite.Arguments{"token", "code"}
	areq.State = "some-foobar-state-win"
	areq.Client = client
	areq.RedirectURI, _ = url.Parse("https://foobar.com")
	areq.GrantedScope = fosite.Arguments{"openid"}
	areq.RequestedScope = fosite.Arguments{"openid"}
	areq.Session = &DefaultSession{Claims: &jwt.IDTokenClaims{Subject: "peter", RequestedAt: time.Now().UTC(), AuthTime: time.Now().UTC()}, Headers: &jwt.Headers{}, Subject: "peter"}
	aresp := fosite.NewAuthorizeResponse()
	if err := h.HandleAuthorizeEndpointRequest(ctx, areq, aresp); err != nil {
		t.Fatalf("hybrid authorize failed: %v", err)
	}
	implicitToken := aresp.GetParameters().Get("access_token")
	code := aresp.GetCode()
	if implicitToken == "" || code == "" {
		t.Fatalf("expected an access token and a code, got %q / %q", implicitToken, code)
	}

	// redeem the code
	treq := fosite.NewAccessRequest(&DefaultSession{Claims: &jwt.IDTokenClaims{Subject: "peter"}, Headers: &jwt.Headers{}, Subject: "peter"})
	treq.GrantTypes = fosite.Arguments{"authorization_code"}
	treq.Client = client
	treq.Form = url.Values{"code": {code}, "redirect_uri": {"https://foobar.com"}}
	if err := explicit.HandleTokenEndpointRequest(ctx, treq); err != nil {
		t.Fatalf("code redemption (handle) failed: %v", err)
	}
	tresp := fosite.NewAccessResponse()
	if err := explicit.PopulateTokenEndpointResponse(ctx, treq, tresp); err != nil {
		t.Fatalf("code redemption (populate) failed: %v", err)
	}
	if treq.GetID() != areq.GetID() {
		t.Fatalf("expected both tokens to carry the request id of the authorization request")
	}

	// revoke the grant by its request id (what RevokeToken / replay detection do)
	if err := store.RevokeAccessToken(ctx, areq.GetID()); err != nil {
		t.Fatal(err)
	}
	sigImplicit := strat.AccessTokenSignature(ctx, implicitToken)
	sigCode := strat.AccessTokenSignature(ctx, tresp.GetAccessToken())
	_, errCode := store.GetAccessTokenSession(ctx, sigCode, nil)
	_, errImplicit := store.GetAccessTokenSession(ctx, sigImplicit, nil)
	if errCode == nil {
		t.Fatalf("the access token issued for the code is still stored after revocation by request id")
	}
	if errImplicit == nil {
		t.Fatalf("VIOLATED: revocation by request id %s left the access token issued at the authorization endpoint in the store (only the latest signature per request id is indexed)", areq.GetID())
	}
}
