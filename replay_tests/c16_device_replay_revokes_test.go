// Replay of the failing obligation C16.replay-revokes on the real code: when the store reports a device code
// as already used (ErrInvalidatedDeviceCode together with the original request), the tokens issued from it
// must be revoked. Injected with go test -overlay into package rfc8628.
package rfc8628

import (
	"context"
	"net/url"
	"testing"
	"time"

	"github.com/ory/fosite"
	"github.com/ory/fosite/handler/oauth2"
	"github.com/ory/fosite/storage"
	"github.com/ory/fosite/token/hmac"
)

// usedAwareStore follows the documented contract: an invalidated device code is remembered and answered
// with the original request plus ErrInvalidatedDeviceCode.
type usedAwareStore struct {
	*storage.MemoryStore
	used map[string]fosite.DeviceRequester
}

func (s *usedAwareStore) GetDeviceCodeSession(ctx context.Context, sig string, sess fosite.Session) (fosite.DeviceRequester, error) {
	if r, ok := s.used[sig]; ok {
		return r, fosite.ErrInvalidatedDeviceCode
	}
	return s.MemoryStore.GetDeviceCodeSession(ctx, sig, sess)
}

func (s *usedAwareStore) InvalidateDeviceCodeSession(ctx context.Context, sig string) error {
	if r, err := s.MemoryStore.GetDeviceCodeSession(ctx, sig, nil); err == nil {
		s.used[sig] = r
	}
	return s.MemoryStore.InvalidateDeviceCodeSession(ctx, sig)
}

func TestVerifReplayC16ReplayRevokes(t *testing.T) {
	ctx := context.Background()
	store := &usedAwareStore{MemoryStore: storage.NewMemoryStore(), used: map[string]fosite.DeviceRequester{}}
	config := &fosite.Config{GlobalSecret: []byte("some-super-cool-secret-that-nobody-knows"), DeviceAndUserCodeLifespan: time.Hour,
		AccessTokenLifespan: time.Hour, RefreshTokenLifespan: time.Hour, RefreshTokenScopes: []string{}}
	strategy := &DefaultDeviceStrategy{Enigma: &hmac.HMACStrategy{Config: config}, Config: config}
	core := oauth2.NewHMACSHAStrategy(&hmac.HMACStrategy{Config: config}, config)
	h := &DeviceCodeTokenEndpointHandler{DeviceRateLimitStrategy: strategy, DeviceCodeStrategy: strategy, UserCodeStrategy: strategy,
		CoreStorage: store, AccessTokenStrategy: core, RefreshTokenStrategy: core, TokenRevocationStorage: store, Config: config}
	client := &fosite.DefaultClient{ID: "tv", GrantTypes: fosite.Arguments{string(fosite.GrantTypeDeviceCode), "refresh_token"}}

	code, sig, err := strategy.GenerateDeviceCode(ctx)
	if err != nil {
		t.Fatal(err)
	}
	_, usig, _ := strategy.GenerateUserCode(ctx)
	dar := fosite.NewDeviceRequest()
	dar.Client = client
	dar.SetID("device-grant-1")
	sess := &fosite.DefaultSession{}
	sess.SetExpiresAt(fosite.DeviceCode, time.Now().Add(time.Hour))
	dar.Session = sess
	dar.UserCodeState = fosite.UserCodeAccepted
	if err := store.CreateDeviceAuthSession(ctx, sig, usig, dar); err != nil {
		t.Fatal(err)
	}
	poll := func() (*fosite.AccessRequest, *fosite.AccessResponse, error) {
		r := fosite.NewAccessRequest(&fosite.DefaultSession{})
		r.Client = client
		r.GrantTypes = fosite.Arguments{string(fosite.GrantTypeDeviceCode)}
		r.Form = url.Values{"device_code": {code}}
		if err := h.HandleTokenEndpointRequest(ctx, r); err != nil {
			return r, nil, err
		}
		resp := fosite.NewAccessResponse()
		return r, resp, h.PopulateTokenEndpointResponse(ctx, r, resp)
	}
	_, resp, err := poll()
	if err != nil {
		t.Fatalf("first redemption must succeed: %v", err)
	}
	asig := core.AccessTokenSignature(ctx, resp.GetAccessToken())
	if _, err := store.GetAccessTokenSession(ctx, asig, nil); err != nil {
		t.Fatalf("access token must exist after redemption: %v", err)
	}
	if _, _, err := poll(); err == nil {
		t.Fatalf("replay must be refused")
	}
	if _, err := store.GetAccessTokenSession(ctx, asig, nil); err == nil {
		t.Fatalf("VIOLATED: the device code was reported as already used, the replay was refused, but the access token issued from it is still active")
	}
}
