// Replay of the failing obligation (*DeviceCodeTokenEndpointHandler).HandleTokenEndpointRequest
// #C19.no-write-to-store-owned-session on the real code: the handler adopted the session object of the STORED device
// request (requester.SetSession(stored.GetSession()), no Clone) and wrote expiry times into it; MemoryStore hands out the
// stored object itself, so two simultaneous polls with the same device code wrote the same map concurrently.
// Run with -race. Injected into package rfc8628.
package rfc8628

import (
	"context"
	"net/url"
	"sync"
	"testing"
	"time"

	"github.com/ory/fosite"
	"github.com/ory/fosite/handler/oauth2"
	"github.com/ory/fosite/storage"
	"github.com/ory/fosite/token/hmac"
)

type noRateLimit struct{}

func (noRateLimit) ShouldRateLimit(ctx context.Context, code string) (bool, error) { return false, nil }

func TestVerifReplayC19DeviceStoreOwnedSessionRace(t *testing.T) {
	ctx := context.Background()
	store := storage.NewMemoryStore()
	config := &fosite.Config{GlobalSecret: []byte("some-super-cool-secret-that-nobody-knows"), DeviceAndUserCodeLifespan: time.Hour,
		AccessTokenLifespan: time.Hour, RefreshTokenLifespan: time.Hour, RefreshTokenScopes: []string{}}
	strategy := &DefaultDeviceStrategy{Enigma: &hmac.HMACStrategy{Config: config}, Config: config}
	core := oauth2.NewHMACSHAStrategy(&hmac.HMACStrategy{Config: config}, config)
	h := &DeviceCodeTokenEndpointHandler{DeviceRateLimitStrategy: noRateLimit{}, DeviceCodeStrategy: strategy, UserCodeStrategy: strategy,
		CoreStorage: store, AccessTokenStrategy: core, RefreshTokenStrategy: core, TokenRevocationStorage: store, Config: config}
	client := &fosite.DefaultClient{ID: "tv", GrantTypes: fosite.Arguments{string(fosite.GrantTypeDeviceCode), "refresh_token"}}

	code, sig, err := strategy.GenerateDeviceCode(ctx)
	if err != nil {
		t.Fatal(err)
	}
	_, usig, _ := strategy.GenerateUserCode(ctx)
	dar := fosite.NewDeviceRequest()
	dar.Client = client
	dar.SetID("device-grant-1")
	sess := &fosite.DefaultSession{}
	sess.SetExpiresAt(fosite.DeviceCode, time.Now().Add(time.Hour))
	dar.Session = sess
	dar.UserCodeState = fosite.UserCodeAccepted
	if err := store.CreateDeviceAuthSession(ctx, sig, usig, dar); err != nil {
		t.Fatal(err)
	}
	var okCount int64
	var mu sync.Mutex
	var wg sync.WaitGroup
	for g := 0; g < 2; g++ {
		wg.Add(1)
		go func() {
			defer wg.Done()
			for i := 0; i < 200; i++ {
				r := fosite.NewAccessRequest(&fosite.DefaultSession{})
				r.Client = client
				r.GrantTypes = fosite.Arguments{string(fosite.GrantTypeDeviceCode)}
				r.Form = url.Values{"device_code": {code}}
				if err := h.HandleTokenEndpointRequest(ctx, r); err == nil { // two simultaneous polls with the same device code
					mu.Lock()
					okCount++
					mu.Unlock()
				}
			}
		}()
	}
	wg.Wait()
	if okCount == 0 {
		t.Fatal("the replay did not reach the code under test: no poll was accepted")
	}
}
