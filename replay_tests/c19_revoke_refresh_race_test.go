// Replay of the failing obligations C19.guarded-access in MemoryStore.RevokeRefreshToken on the real code:
// the refresh-token table is read and written without its mutex, which the race detector reports as soon as
// another goroutine uses the table. Run with -race.
package storage

import (
	"context"
	"sync"
	"testing"

	"github.com/ory/fosite"
)

func TestVerifReplayC19RevokeRefreshTokenRace(t *testing.T) {
	ctx := context.Background()
	s := NewMemoryStore()
	req := fosite.NewRequest()
	req.ID = "grant"
	if err := s.CreateRefreshTokenSession(ctx, "sig", "asig", req); err != nil {
		t.Fatal(err)
	}
	var wg sync.WaitGroup
	wg.Add(2)
	go func() {
		defer wg.Done()
		for i := 0; i < 2000; i++ {
			_ = s.RevokeRefreshToken(ctx, "grant")
		}
	}()
	go func() {
		defer wg.Done()
		for i := 0; i < 2000; i++ {
			_, _ = s.GetRefreshTokenSession(ctx, "sig", nil)
		}
	}()
	wg.Wait()
}
