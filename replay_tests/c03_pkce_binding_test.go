// Replay of the failing obligation C03.failed-attempt-keeps-binding on the real code:
// a failed redemption attempt must not consume the PKCE binding. Injected with go test -overlay.
package pkce

import (
	"context"
	"crypto/sha256"
	"encoding/base64"
	"net/url"
	"testing"

	"github.com/ory/fosite"
	"github.com/ory/fosite/handler/oauth2"
	"github.com/ory/fosite/storage"
)

func TestVerifReplayC03FailedAttemptKeepsBinding(t *testing.T) {
	var config fosite.Config // PKCE not enforced
	store := storage.NewMemoryStore()
	h := &Handler{Storage: store, AuthorizeCodeStrategy: oauth2.NewHMACSHAStrategy(nil, nil), Config: &config}
	verifier := "averyveryveryveryverylongverifierwith43plus-chars._~"
	sum := sha256.Sum256([]byte(verifier))
	challenge := base64.RawURLEncoding.EncodeToString(sum[:])
	client := &fosite.DefaultClient{ID: "c"}

	ar := fosite.NewAuthorizeRequest()
	ar.Client = client
	ar.ResponseTypes = fosite.Arguments{"code"}
	ar.Form = url.Values{"code_challenge": {challenge}, "code_challenge_method": {"S256"}}
	resp := fosite.NewAuthorizeResponse()
	resp.AddParameter("code", "foo.bar")
	if err := h.HandleAuthorizeEndpointRequest(context.Background(), ar, resp); err != nil {
		t.Fatalf("authorize: %v", err)
	}
	attempt := func(v string) error {
		r := fosite.NewAccessRequest(&fosite.DefaultSession{})
		r.Client = client
		r.GrantTypes = fosite.Arguments{"authorization_code"}
		r.Form = url.Values{"code": {"foo.bar"}}
		if v != "" {
			r.Form.Set("code_verifier", v)
		}
		return h.HandleTokenEndpointRequest(context.Background(), r)
	}
	if err := attempt("wrongwrongwrongwrongwrongwrongwrongwrongwrongwrong"); err == nil {
		t.Fatalf("attempt 1 (wrong verifier) must be refused")
	}
	if err := attempt(""); err == nil {
		t.Fatalf("VIOLATED: after one failed attempt the code redeems with no code_verifier at all")
	}
	if err := attempt(verifier); err != nil {
		t.Fatalf("the rightful holder must still be able to redeem: %v", err)
	}
}
