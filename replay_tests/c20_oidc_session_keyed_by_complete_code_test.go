// Replay of the failing obligations #C20.no-complete-code-as-storage-key (OpenIDConnectExplicitHandler authorize and token
// side, OpenIDConnectHybridHandler) on the real code: the OpenID Connect session is created, fetched and deleted under the
// COMPLETE authorization code (key part and signature), i.e. a usable credential is handed to the storage layer as a key.
// Injected with go test -overlay into package openid.
package openid

import (
	"context"
	"net/url"
	"strings"
	"testing"
	"time"

	"github.com/ory/fosite"
	"github.com/ory/fosite/storage"
	"github.com/ory/fosite/token/jwt"
)

type keySpy struct {
	*storage.MemoryStore
	keys []string
}

func (s *keySpy) CreateOpenIDConnectSession(ctx context.Context, code string, r fosite.Requester) error {
	s.keys = append(s.keys, code)
	return s.MemoryStore.CreateOpenIDConnectSession(ctx, code, r)
}

func TestVerifReplayC20OIDCSessionKeyedByCompleteCode(t *testing.T) {
	spy := &keySpy{MemoryStore: storage.NewMemoryStore()}
	h := &OpenIDConnectExplicitHandler{
		OpenIDConnectRequestStorage:   spy,
		OpenIDConnectRequestValidator: NewOpenIDConnectRequestValidator(&jwt.DefaultSigner{GetPrivateKey: func(ctx context.Context) (interface{}, error) { return key, nil }}, &fosite.Config{}),
		Config:                        &fosite.Config{},
	}
	areq := fosite.NewAuthorizeRequest()
	areq.Form = url.Values{"redirect_uri": {"https://foobar.com"}}
	areq.ResponseTypes = fosite.Arguments{"code"}
	areq.GrantedScope = fosite.Arguments{"openid"}
	areq.Client = &fosite.DefaultClient{ID: "app"}
	areq.Session = &DefaultSession{Claims: &jwt.IDTokenClaims{Subject: "peter", RequestedAt: time.Now().UTC(), AuthTime: time.Now().UTC()}, Headers: &jwt.Headers{}, Subject: "peter"}
	aresp := fosite.NewAuthorizeResponse()
	code, signature, err := hmacStrategy.Enigma.Generate(context.Background()) // what the code handler put into the response before
	if err != nil {
		t.Fatal(err)
	}
	aresp.AddParameter("code", code)
	if err := h.HandleAuthorizeEndpointRequest(context.Background(), areq, aresp); err != nil {
		t.Fatal(err)
	}
	if len(spy.keys) != 1 {
		t.Fatalf("expected one stored session, got %d", len(spy.keys))
	}
	if spy.keys[0] == signature {
		t.Logf("held: stored under the signature only")
		return
	}
	if spy.keys[0] == code && strings.Contains(code, ".") {
		t.Fatalf("KNOWN FINDING reproduced: the storage layer received the complete authorization code as a key (%d bytes, signature is only the last %d)", len(code), len(signature))
	}
}
