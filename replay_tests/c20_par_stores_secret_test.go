// Replay of the failing obligation C20.stored-form-whitelisted at CreatePARSession on the real code:
// the request form handed to the storage layer by the PAR handler must not contain the client's secret.
package par_test

import (
	"context"
	"net/url"
	"testing"
	"time"

	"github.com/ory/fosite"
	"github.com/ory/fosite/handler/par"
	"github.com/ory/fosite/storage"
)

func TestVerifReplayC20PARStoresSecret(t *testing.T) {
	ctx := context.Background()
	store := storage.NewMemoryStore()
	config := &fosite.Config{PushedAuthorizeRequestURIPrefix: "urn:ietf:params:oauth:request_uri:", PushedAuthorizeContextLifespan: time.Minute,
		ScopeStrategy: fosite.ExactScopeStrategy, AudienceMatchingStrategy: fosite.DefaultAudienceMatchingStrategy}
	h := &par.PushedAuthorizeHandler{Storage: store, Config: config}
	ar := fosite.NewAuthorizeRequest()
	ar.Client = &fosite.DefaultClient{ID: "app", Scopes: []string{"photos"}}
	ar.ResponseTypes = fosite.Arguments{"code"}
	ar.RedirectURI, _ = url.Parse("https://app.example/cb")
	ar.Session = &fosite.DefaultSession{}
	ar.Form = url.Values{"client_id": {"app"}, "client_secret": {"foobar"}, "response_type": {"code"}, "redirect_uri": {"https://app.example/cb"}}
	resp := &fosite.PushedAuthorizeResponse{}
	if err := h.HandlePushedAuthorizeEndpointRequest(ctx, ar, resp); err != nil {
		t.Fatal(err)
	}
	stored, err := store.GetPARSession(ctx, resp.RequestURI)
	if err != nil {
		t.Fatal(err)
	}
	if s := stored.GetRequestForm().Get("client_secret"); s != "" {
		t.Fatalf("VIOLATED: the stored pushed authorization request contains client_secret=%q in cleartext", s)
	}
}
