// Replay for the candidate finding "the caller authenticates with the very token it inspects, spelled differently":
// NewIntrospectionRequest refuses a bearer token that is string-identical to the inspected token, but the prefixed HMAC
// strategy validates a token with or without its "ory_at_" prefix, so the same token passes as "a different one".
// Injected with go test -overlay into package fosite_test.
package fosite_test

import (
	"context"
	"net/http"
	"net/url"
	"strings"
	"testing"
	"time"

	"github.com/ory/fosite"
	"github.com/ory/fosite/compose"
	"github.com/ory/fosite/storage"
)

func TestVerifReplayC09SameTokenOtherSpelling(t *testing.T) {
	ctx := context.Background()
	store := storage.NewMemoryStore()
	config := &fosite.Config{GlobalSecret: []byte("some-super-cool-secret-that-nobody-knows-nobody-knows"), AccessTokenLifespan: time.Hour}
	strat := compose.NewOAuth2HMACStrategy(config)
	f := compose.Compose(config, store, strat, compose.OAuth2TokenIntrospectionFactory)

	client := &fosite.DefaultClient{ID: "app", Scopes: []string{"fosite"}}
	req := fosite.NewRequest()
	req.Client = client
	req.Session = &fosite.DefaultSession{Subject: "peter"}
	req.Session.SetExpiresAt(fosite.AccessToken, time.Now().UTC().Add(time.Hour))
	token, sig, err := strat.GenerateAccessToken(ctx, req)
	if err != nil {
		t.Fatal(err)
	}
	if err := store.CreateAccessTokenSession(ctx, sig, req); err != nil {
		t.Fatal(err)
	}
	if !strings.HasPrefix(token, "ory_at_") {
		t.Skip("strategy does not prefix tokens")
	}
	bare := strings.TrimPrefix(token, "ory_at_")

	body := url.Values{"token": {bare}}
	r, _ := http.NewRequest("POST", "https://as.example/introspect", strings.NewReader(body.Encode()))
	r.Header.Set("Content-Type", "application/x-www-form-urlencoded")
	r.Header.Set("Authorization", "Bearer "+token)
	resp, err := f.NewIntrospectionRequest(ctx, r, &fosite.DefaultSession{})
	if err == nil && resp.IsActive() {
		t.Fatalf("VIOLATED: the caller authenticated with the very access token it asked about (bearer %q..., token %q...)", token[:14], bare[:7])
	}
	t.Logf("held: refused (%v)", err)
}
