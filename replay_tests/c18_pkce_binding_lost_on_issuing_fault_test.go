// Replay of the failing obligation (*pkce.Handler).HandleTokenEndpointRequest#C18.binding-not-consumed-before-issuing on the
// real code: the PKCE handler deletes the PKCE session in its Handle step, as soon as the verifier has been accepted; the
// authorization code is invalidated later, inside the issuing step of the code handler. If that issuing step fails (here:
// the store fails once when the access token is written and the transaction is rolled back), the code is still usable - as C18 wants - but its PKCE binding is
// gone: with PKCE not enforced, a second request WITHOUT any verifier now redeems the code. Injected into package pkce.
package pkce_test

import (
	"context"
	"crypto/sha256"
	"encoding/base64"
	"errors"
	"net/http"
	"net/http/httptest"
	"net/url"
	"strings"
	"testing"
	"time"

	"github.com/ory/fosite"
	"github.com/ory/fosite/compose"
	"github.com/ory/fosite/storage"
)

// failOnceStore is the reference store made transactional the simplest way (snapshot of the code and token tables at begin,
// restored at rollback - what a SQL store's transaction does), plus one injectable fault.
type failOnceStore struct {
	*storage.MemoryStore
	failNextAccessTokenWrite bool
	snapCodes                map[string]storage.StoreAuthorizeCode
	snapAccess               map[string]fosite.Requester
	snapRefresh              map[string]storage.StoreRefreshToken
}

func (s *failOnceStore) BeginTX(ctx context.Context) (context.Context, error) {
	s.snapCodes = map[string]storage.StoreAuthorizeCode{}
	for k, v := range s.AuthorizeCodes {
		s.snapCodes[k] = v
	}
	s.snapAccess = map[string]fosite.Requester{}
	for k, v := range s.AccessTokens {
		s.snapAccess[k] = v
	}
	s.snapRefresh = map[string]storage.StoreRefreshToken{}
	for k, v := range s.RefreshTokens {
		s.snapRefresh[k] = v
	}
	return ctx, nil
}
func (s *failOnceStore) Commit(ctx context.Context) error { return nil }
func (s *failOnceStore) Rollback(ctx context.Context) error {
	s.AuthorizeCodes, s.AccessTokens, s.RefreshTokens = s.snapCodes, s.snapAccess, s.snapRefresh
	return nil
}

func (s *failOnceStore) CreateAccessTokenSession(ctx context.Context, signature string, req fosite.Requester) error {
	if s.failNextAccessTokenWrite {
		s.failNextAccessTokenWrite = false
		return errors.New("connection reset by peer")
	}
	return s.MemoryStore.CreateAccessTokenSession(ctx, signature, req)
}

func TestVerifReplayC18PKCEBindingLostOnIssuingFault(t *testing.T) {
	ctx := context.Background()
	store := &failOnceStore{MemoryStore: storage.NewMemoryStore()}
	store.Clients["app"] = &fosite.DefaultClient{ID: "app", Public: true, RedirectURIs: []string{"https://app.example/cb"},
		ResponseTypes: []string{"code"}, GrantTypes: []string{"authorization_code"}, Scopes: []string{"photos"}}
	config := &fosite.Config{GlobalSecret: []byte("some-super-cool-secret-that-nobody-knows-nobody-knows"), AuthorizeCodeLifespan: time.Hour, AccessTokenLifespan: time.Hour}
	provider := compose.Compose(config, store, compose.NewOAuth2HMACStrategy(config), compose.OAuth2AuthorizeExplicitFactory, compose.OAuth2PKCEFactory)

	verifier := strings.Repeat("v", 50)
	sum := sha256.Sum256([]byte(verifier))
	challenge := base64.RawURLEncoding.EncodeToString(sum[:])

	// authorization request with an S256 challenge
	q := url.Values{"client_id": {"app"}, "response_type": {"code"}, "redirect_uri": {"https://app.example/cb"}, "scope": {"photos"},
		"state": {"0123456789abcdef"}, "code_challenge": {challenge}, "code_challenge_method": {"S256"}}
	ar, err := provider.NewAuthorizeRequest(ctx, httptest.NewRequest("GET", "https://as.example/auth?"+q.Encode(), nil))
	if err != nil {
		t.Fatal(err)
	}
	ar.GrantScope("photos")
	resp, err := provider.NewAuthorizeResponse(ctx, ar, &fosite.DefaultSession{Subject: "peter"})
	if err != nil {
		t.Fatal(err)
	}
	code := resp.GetCode()

	redeem := func(withVerifier bool) error {
		form := url.Values{"grant_type": {"authorization_code"}, "code": {code}, "redirect_uri": {"https://app.example/cb"}, "client_id": {"app"}}
		if withVerifier {
			form.Set("code_verifier", verifier)
		}
		r := httptest.NewRequest("POST", "https://as.example/token", strings.NewReader(form.Encode()))
		r.Header.Set("Content-Type", "application/x-www-form-urlencoded")
		areq, err := provider.NewAccessRequest(ctx, r, &fosite.DefaultSession{})
		if err != nil {
			return err
		}
		_, err = provider.NewAccessResponse(ctx, areq)
		return err
	}
	_ = http.StatusOK

	// 1. the legitimate holder presents code + verifier; the store fails while the access token is written
	store.failNextAccessTokenWrite = true
	if err := redeem(true); err == nil {
		t.Fatal("the injected storage fault must refuse the request")
	}
	// 2. somebody who holds only the code (no verifier) tries: the code carried a challenge, so this must be refused
	if err := redeem(false); err == nil {
		t.Fatalf("a code bound to an S256 challenge was redeemed WITHOUT a code_verifier after a storage fault in an earlier attempt")
	}
	// 3. the legitimate holder retries and must succeed
	if err := redeem(true); err != nil {
		t.Fatalf("the legitimate holder's retry failed: %v", err)
	}
}
