// Replay of the failing obligations C19.config-getters-read-only on the real code: getters of a shared,
// default-constructed Config write lazily-computed defaults into it, which the race detector reports when two
// requests run concurrently. Run with -race.
package fosite

import (
	"context"
	"sync"
	"testing"
)

func TestVerifReplayC19ConfigLazyDefaults(t *testing.T) {
	for name, get := range map[string]func(c *Config){
		"GetScopeStrategy":       func(c *Config) { _ = c.GetScopeStrategy(context.Background()) },
		"GetAudienceStrategy":    func(c *Config) { _ = c.GetAudienceStrategy(context.Background()) },
		"GetSecretsHasher":       func(c *Config) { _ = c.GetSecretsHasher(context.Background()) },
		"GetJWKSFetcherStrategy": func(c *Config) { _ = c.GetJWKSFetcherStrategy(context.Background()) },
	} {
		t.Run(name, func(t *testing.T) {
			c := &Config{}
			var wg sync.WaitGroup
			for i := 0; i < 2; i++ {
				wg.Add(1)
				go func() { defer wg.Done(); get(c) }()
			}
			wg.Wait()
		})
	}
}
