// Replay of the failing obligations #C19.no-write-to-store-owned-session (code flow and device flow token handlers) on the
// real code: the handler adopts the session object of the STORED request (request.SetSession(stored.GetSession()), no
// Clone) and then writes expiry times into it. MemoryStore hands out the stored object itself, so two simultaneous
// presentations of the same code write the same map concurrently. Run with -race. Injected into package oauth2.
package oauth2

import (
	"context"
	"net/url"
	"sync"
	"testing"
	"time"

	"github.com/ory/fosite"
	"github.com/ory/fosite/storage"
	"github.com/ory/fosite/token/hmac"
)

func TestVerifReplayC19StoreOwnedSessionRace(t *testing.T) {
	ctx := context.Background()
	store := storage.NewMemoryStore()
	config := &fosite.Config{ScopeStrategy: fosite.HierarchicScopeStrategy, AudienceMatchingStrategy: fosite.DefaultAudienceMatchingStrategy, AccessTokenLifespan: time.Hour, RefreshTokenLifespan: time.Hour, AuthorizeCodeLifespan: time.Hour, GlobalSecret: []byte("some-super-cool-secret-that-nobody-knows-nobody-knows")}
	strat := NewHMACSHAStrategy(&hmac.HMACStrategy{Config: config}, config)
	h := &AuthorizeExplicitGrantHandler{AuthorizeCodeStrategy: strat, AccessTokenStrategy: strat, RefreshTokenStrategy: strat, CoreStorage: store, TokenRevocationStorage: store, Config: config}
	client := &fosite.DefaultClient{ID: "app", GrantTypes: fosite.Arguments{"authorization_code"}, RedirectURIs: []string{"https://app.example/cb"}}

	stored := fosite.NewRequest()
	stored.SetID("grant-1") // as in the real flow: the request is stored through Sanitize, which fixes its id
	stored.Client = client
	stored.Session = &fosite.DefaultSession{Subject: "peter"}
	stored.Form = url.Values{"redirect_uri": {"https://app.example/cb"}}
	stored.Session.SetExpiresAt(fosite.AuthorizeCode, time.Now().UTC().Add(time.Hour))
	code, sig, err := strat.GenerateAuthorizeCode(ctx, stored)
	if err != nil {
		t.Fatal(err)
	}
	if err := store.CreateAuthorizeCodeSession(ctx, sig, stored); err != nil {
		t.Fatal(err)
	}

	var wg sync.WaitGroup
	for g := 0; g < 2; g++ {
		wg.Add(1)
		go func() {
			defer wg.Done()
			for i := 0; i < 200; i++ {
				req := fosite.NewAccessRequest(&fosite.DefaultSession{})
				req.GrantTypes = fosite.Arguments{"authorization_code"}
				req.Client = client
				req.Form = url.Values{"code": {code}, "redirect_uri": {"https://app.example/cb"}}
				_ = h.HandleTokenEndpointRequest(ctx, req) // two simultaneous presentations of the same code
			}
		}()
	}
	wg.Wait()
}
