// Replay of the failing obligation C17.unexpired (= C07 par-expiry) on the real code: a request_uri must not be
// honoured after the pushed-authorization context has expired. Injected with go test -overlay into package fosite_test.
package fosite_test

import (
	"context"
	"net/http"
	"net/url"
	"testing"
	"time"

	"github.com/ory/fosite"
	"github.com/ory/fosite/storage"
)

func TestVerifReplayC17PARExpiry(t *testing.T) {
	ctx := context.Background()
	store := storage.NewMemoryStore()
	client := &fosite.DefaultClient{ID: "app", RedirectURIs: []string{"https://app.example/cb"}, ResponseTypes: []string{"code"}, GrantTypes: []string{"authorization_code"}, Scopes: []string{"photos"}}
	store.Clients["app"] = client
	config := &fosite.Config{PushedAuthorizeRequestURIPrefix: "urn:ietf:params:oauth:request_uri:", PushedAuthorizeContextLifespan: time.Second}
	f := &fosite.Fosite{Store: store, Config: config}

	pushed := fosite.NewAuthorizeRequest()
	pushed.Client = client
	pushed.ResponseTypes = fosite.Arguments{"code"}
	pushed.RedirectURI, _ = url.Parse("https://app.example/cb")
	pushed.State = "some-long-state-value"
	pushed.Form = url.Values{"client_id": {"app"}, "response_type": {"code"}, "state": {"some-long-state-value"}}
	sess := &fosite.DefaultSession{}
	sess.SetExpiresAt(fosite.PushedAuthorizeRequestContext, time.Now().UTC().Add(-time.Minute)) // expired a minute ago
	pushed.Session = sess
	uri := "urn:ietf:params:oauth:request_uri:abc"
	if err := store.CreatePARSession(ctx, uri, pushed); err != nil {
		t.Fatal(err)
	}
	r := &http.Request{Method: "GET", Form: url.Values{"client_id": {"app"}, "request_uri": {uri}}, Header: http.Header{}}
	ar, err := f.NewAuthorizeRequest(ctx, r)
	if err == nil {
		t.Fatalf("VIOLATED: a request_uri whose context expired a minute ago was honoured (state=%q)", ar.GetState())
	}
}
