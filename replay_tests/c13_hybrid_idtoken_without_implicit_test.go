// Replay of the failing obligation (*OpenIDConnectHybridHandler).HandleAuthorizeEndpointRequest#C13.id-token-needs-implicit-grant
// on the real code: a client registered WITHOUT the implicit grant requests response_type "code id_token" and receives an
// ID token from the authorization endpoint. Injected with go test -overlay into package openid (handler/openid).
package openid

import (
	"context"
	"net/url"
	"testing"
	"time"

	"github.com/ory/fosite"
	"github.com/ory/fosite/token/jwt"
)

func TestVerifReplayC13HybridIDTokenWithoutImplicitGrant(t *testing.T) {
	h := makeOpenIDConnectHybridHandler(fosite.MinParameterEntropy)
	areq := fosite.NewAuthorizeRequest()
	areq.Form = url.Values{"redirect_uri": {"https://foobar.com"}, "nonce": {"some-foobar-nonce-win"}}
	areq.ResponseTypes = fosite.Arguments{"code", "id_token"}
	areq.State = "some-foobar-state-win"
	areq.Client = &fosite.DefaultClient{
		ID:            "no-implicit",
		GrantTypes:    fosite.Arguments{"authorization_code"}, // implicit grant NOT registered
		ResponseTypes: fosite.Arguments{"code id_token"},
		Scopes:        []string{"openid"},
	}
	areq.GrantedScope = fosite.Arguments{"openid"}
	areq.RequestedScope = fosite.Arguments{"openid"}
	areq.Session = &DefaultSession{
		Claims:  &jwt.IDTokenClaims{Subject: "peter", RequestedAt: time.Now().UTC(), AuthTime: time.Now().UTC()},
		Headers: &jwt.Headers{},
		Subject: "peter",
	}
	aresp := fosite.NewAuthorizeResponse()
	err := h.HandleAuthorizeEndpointRequest(context.Background(), areq, aresp)
	if err != nil {
		t.Logf("held: the request was refused: %v", err)
		return
	}
	if tok := aresp.GetParameters().Get("id_token"); tok != "" {
		t.Fatalf("KNOWN FINDING reproduced: client without the implicit grant received an ID token from the authorization endpoint (%d bytes)", len(tok))
	}
}
