// Replay of the failing obligation (*Fosite).NewPushedAuthorizeRequest#C10.par-client-is-authenticated-client on the real
// code: client A authenticates with its own secret (HTTP Basic) at the pushed-authorization endpoint while the body names
// client_id=B; the request must not be processed in the name of B. Injected with go test -overlay into package fosite_test.
package fosite_test

import (
	"context"
	"net/http"
	"net/url"
	"strings"
	"testing"

	"github.com/ory/fosite"
	"github.com/ory/fosite/storage"
)

func TestVerifReplayC10PARClientMismatch(t *testing.T) {
	ctx := context.Background()
	store := storage.NewMemoryStore()
	hasher := &fosite.BCrypt{Config: &fosite.Config{HashCost: 4}}
	hashA, _ := hasher.Hash(ctx, []byte("secret-of-a"))
	hashB, _ := hasher.Hash(ctx, []byte("secret-of-b"))
	store.Clients["a"] = &fosite.DefaultClient{ID: "a", Secret: hashA, RedirectURIs: []string{"https://a.example/cb"}, ResponseTypes: []string{"code"}, GrantTypes: []string{"authorization_code"}, Scopes: []string{"photos"}}
	store.Clients["b"] = &fosite.DefaultClient{ID: "b", Secret: hashB, RedirectURIs: []string{"https://b.example/cb"}, ResponseTypes: []string{"code"}, GrantTypes: []string{"authorization_code"}, Scopes: []string{"photos"}}
	config := &fosite.Config{ClientSecretsHasher: hasher, PushedAuthorizeRequestURIPrefix: "urn:ietf:params:oauth:request_uri:"}
	f := &fosite.Fosite{Store: store, Config: config}

	body := url.Values{"client_id": {"b"}, "response_type": {"code"}, "redirect_uri": {"https://b.example/cb"}, "state": {"some-long-state-value"}, "scope": {"photos"}}
	r, _ := http.NewRequest("POST", "https://as.example/par", strings.NewReader(body.Encode()))
	r.Header.Set("Content-Type", "application/x-www-form-urlencoded")
	r.SetBasicAuth("a", "secret-of-a") // A proves knowledge of A's secret only

	ar, err := f.NewPushedAuthorizeRequest(ctx, r)
	if err != nil {
		t.Logf("held: the pushed request was refused: %v", err)
		return
	}
	if ar.GetClient().GetID() != "a" {
		t.Fatalf("VIOLATED: client %q authenticated, but the pushed authorization request is processed in the name of client %q", "a", ar.GetClient().GetID())
	}
}
