// Replay of the failing obligation C16.user-code-signed on the real code: when signing the user code fails,
// GenerateUserCode must report the failure instead of returning an empty code and signature with a nil error.
package rfc8628

import (
	"context"
	"testing"

	"github.com/ory/fosite"
	"github.com/ory/fosite/token/hmac"
)

func TestVerifReplayC16UserCodeSignError(t *testing.T) {
	config := &fosite.Config{GlobalSecret: []byte("too-short")} // signing fails: secret shorter than 32 bytes
	s := &DefaultDeviceStrategy{Enigma: &hmac.HMACStrategy{Config: config}, Config: config}
	code, sig, err := s.GenerateUserCode(context.Background())
	if err == nil {
		t.Fatalf("VIOLATED: signing failed but GenerateUserCode returned code=%q signature=%q with a nil error", code, sig)
	}
}
