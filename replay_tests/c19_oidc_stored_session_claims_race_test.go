// Replay of the failing obligations (*OpenIDConnectExplicitHandler).PopulateTokenEndpointResponse and
// (*OpenIDConnectDeviceHandler).PopulateTokenEndpointResponse #C19.no-write-to-store-owned-session on the real code: the handler takes the session object of the STORED OpenID Connect
// request, writes at_hash into its claims and lets the ID token generator write exp, iat, jti, ... into the same object.
// MemoryStore hands out the stored object itself, so two simultaneous presentations of one code that both pass the lookup
// before either deletes the session write the same claims object concurrently. Run with -race. Injected into package openid.
package openid

import (
	"context"
	"fmt"
	"net/url"
	"sync"
	"testing"
	"time"

	"github.com/ory/fosite"
	"github.com/ory/fosite/handler/rfc8628"
	"github.com/ory/fosite/storage"
	"github.com/ory/fosite/token/hmac"
	"github.com/ory/fosite/token/jwt"
)

func TestVerifReplayC19OIDCStoredSessionClaimsRace(t *testing.T) {
	ctx := context.Background()
	store := storage.NewMemoryStore()
	config := &fosite.Config{MinParameterEntropy: fosite.MinParameterEntropy, IDTokenLifespan: time.Hour}
	h := &OpenIDConnectExplicitHandler{
		OpenIDConnectRequestStorage: store,
		Config:                      config,
		IDTokenHandleHelper: &IDTokenHandleHelper{IDTokenStrategy: &DefaultStrategy{
			Signer: &jwt.DefaultSigner{GetPrivateKey: func(ctx context.Context) (interface{}, error) { return key, nil }},
			Config: config,
		}},
	}
	client := &fosite.DefaultClient{ID: "app", GrantTypes: fosite.Arguments{"authorization_code"}}
	for i := 0; i < 300; i++ {
		code := fmt.Sprintf("code-%d.sig-%d", i, i)
		stored := fosite.NewAuthorizeRequest()
		stored.SetID(fmt.Sprintf("grant-%d", i))
		stored.Client = client
		stored.Session = &DefaultSession{Claims: &jwt.IDTokenClaims{Subject: "peter"}, Headers: &jwt.Headers{}, Subject: "peter"}
		stored.GrantedScope = fosite.Arguments{"openid"}
		if err := store.CreateOpenIDConnectSession(ctx, code, stored); err != nil {
			t.Fatal(err)
		}
		var wg sync.WaitGroup
		start := make(chan struct{})
		for g := 0; g < 2; g++ {
			wg.Add(1)
			go func() {
				defer wg.Done()
				areq := fosite.NewAccessRequest(&DefaultSession{})
				areq.GrantTypes = fosite.Arguments{"authorization_code"}
				areq.Client = client
				areq.Form = url.Values{"code": {code}}
				aresp := fosite.NewAccessResponse()
				aresp.SetAccessToken("some-access-token")
				<-start
				_ = h.PopulateTokenEndpointResponse(ctx, areq, aresp) // two simultaneous presentations of the same code
			}()
		}
		close(start)
		wg.Wait()
	}
}

func TestVerifReplayC19OIDCDeviceStoredSessionClaimsRace(t *testing.T) {
	ctx := context.Background()
	store := storage.NewMemoryStore()
	config := &fosite.Config{MinParameterEntropy: fosite.MinParameterEntropy, DeviceAndUserCodeLifespan: time.Hour, IDTokenLifespan: time.Hour, GlobalSecret: []byte("some-super-cool-secret-that-nobody-knows-nobody-knows")}
	strat := &rfc8628.DefaultDeviceStrategy{Enigma: &hmac.HMACStrategy{Config: config}, Config: config}
	h := OpenIDConnectDeviceHandler{
		OpenIDConnectRequestStorage: store,
		DeviceCodeStrategy:          strat,
		Config:                      config,
		IDTokenHandleHelper: &IDTokenHandleHelper{IDTokenStrategy: &DefaultStrategy{
			Signer: &jwt.DefaultSigner{GetPrivateKey: func(ctx context.Context) (interface{}, error) { return key, nil }},
			Config: config,
		}},
	}
	client := &fosite.DefaultClient{ID: "tv", GrantTypes: fosite.Arguments{"urn:ietf:params:oauth:grant-type:device_code"}}
	for i := 0; i < 300; i++ {
		deviceCode, signature, err := strat.GenerateDeviceCode(ctx)
		if err != nil {
			t.Fatal(err)
		}
		stored := fosite.NewRequest()
		stored.SetID(fmt.Sprintf("grant-%d", i))
		stored.Client = client
		stored.Session = &DefaultSession{Claims: &jwt.IDTokenClaims{Subject: "peter"}, Headers: &jwt.Headers{}, Subject: "peter"}
		stored.GrantedScope = fosite.Arguments{"openid"}
		if err := store.CreateOpenIDConnectSession(ctx, signature, stored); err != nil {
			t.Fatal(err)
		}
		var wg sync.WaitGroup
		start := make(chan struct{})
		for g := 0; g < 2; g++ {
			wg.Add(1)
			go func() {
				defer wg.Done()
				areq := fosite.NewAccessRequest(&DefaultSession{})
				areq.GrantTypes = fosite.Arguments{"urn:ietf:params:oauth:grant-type:device_code"}
				areq.Client = client
				areq.Form = url.Values{"device_code": {deviceCode}}
				aresp := fosite.NewAccessResponse()
				aresp.SetAccessToken("some-access-token")
				<-start
				_ = h.PopulateTokenEndpointResponse(ctx, areq, aresp) // two simultaneous polls with the same device code
			}()
		}
		close(start)
		wg.Wait()
	}
}
