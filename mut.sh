#!/bin/bash
# usage: mut.sh <file> <sed-expr> <func-pattern...>   -- applies a sed mutation on a scratch copy and runs govc func
set -e
rm -rf /tmp/scr && rsync -a --exclude .git /repo/ /tmp/scr/
f=$1; e=$2; shift 2
cp /tmp/scr/$f /tmp/scr_orig
sed -i "$e" /tmp/scr/$f
if cmp -s /tmp/scr/$f /tmp/scr_orig; then echo "MUTATION DID NOT APPLY"; exit 3; fi
diff /tmp/scr_orig /tmp/scr/$f | head -6 || true
(cd /tmp/scr && go build ./... ) || { echo "DOES NOT COMPILE"; exit 4; }
/verif/bin/govc func -repo /tmp/scr "$@" 2>&1 | grep -E "FAIL|UNSUPP|clause|unreachable|^==" || true
rm -rf /tmp/scr /tmp/scr_orig
