#!/usr/bin/env python3
"""Regenerates MANIFEST.json from the table below (kept in one place so it stays valid)."""
import json, subprocess

ENV = "GOFLAGS=-mod=mod GOPROXY=off GOSUMDB=off GOTOOLCHAIN=local"
props = [json.loads(l) for l in open('/verif/properties.jsonl')]
ids = [p['id'] for p in props]

# property -> (level text, level note, design ref) for claimed properties
claimed = json.load(open('/verif/claims.json'))
na = json.load(open('/verif/not_applicable.json'))

hooks = subprocess.run(['git', '-C', '/repo', 'log', '--format=%H %s'], capture_output=True, text=True).stdout.splitlines()
hook_commits = [l.split()[0] for l in hooks if l.split(' ', 1)[1].startswith('verif:')]

checks = []
for pid in ids:
    if pid not in claimed:
        continue
    c = claimed[pid]
    checks.append({
        "property_id": pid,
        "quick_cmd": f"bin/govc check --property {pid} --tier quick",
        "thorough_cmd": f"bin/govc check --property {pid} --tier thorough",
        "evidence_file": f"/verif/evidence/{pid}.json",
        "replay_cmd_template": "cat {path}",
        "engine": "govc",
        "level_claimed": {"category": "proof", "text": c["text"], "design_ref": c.get("design_ref", "DESIGN.md section 7 " + pid)},
        "level_note": c["note"],
        "technique": "contract-based deductive verification: weakest-precondition-style VCs generated over go/ssa of the real functions, contracts in //@ comment files behind build tag verif, every obligation discharged by z3 5.1 / z3 4.8 / cvc5",
    })

m = {
    "version": 1,
    "setup_cmd": f"cd /verif/govc && {ENV} go build -o /verif/bin/govc .",
    "hooks": {
        "guard": "verif",
        "enable": "packages are loaded with -tags verif; the guarded files are the comment-only verif_contracts.go files holding //@ contracts and five files verif_history.go (package fosite, handler/oauth2, handler/rfc8628, handler/par, handler/rfc7523) holding ghost drivers: functions that are never called and only exist so that an arbitrary history of operations is a loop whose invariant the verifier checks against the handler contracts",
        "baseline_off_cmd": "for m in $(cat /w/out/gomods.txt); do MF=$(cd /repo/$m && . /w/out/goenv.sh && gomodflag); (cd /repo/$m && go test $MF -json -vet=off -count=1 -timeout 25m ./...); done",
        "source_commits": hook_commits,
        "add_only": True,
    },
    "engines": [{
        "name": "govc", "path": "/verif/govc", "serves_properties": sorted(claimed.keys()),
        "kind_free_text": "contract-based deductive verifier for Go written for this task: loads /repo's current tree (go/packages, go/ssa), generates passive-form verification conditions per function under contract (loops cut at invariants, calls replaced by callee contracts, interface calls by interface contracts), discharges each named obligation with z3-new/z3/cvc5",
    }],
    "checks": checks,
    "notes": "See DESIGN.md. Known findings: /verif/known_findings.json. Registered obligation names: /verif/obligations.json.",
    "not_applicable": [{"property_id": p, "reason": na.get(p, "check not built yet; will be claimed once its obligations discharge")} for p in ids if p not in claimed],
}
json.dump(m, open('/verif/MANIFEST.json', 'w'), indent=1)
print("checks:", [c['property_id'] for c in checks])
