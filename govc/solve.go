package main

import (
	"bytes"
	"context"
	"encoding/json"
	"fmt"
	"io"
	"os"
	"os/exec"
	"path/filepath"
	"strings"
	"sync"
	"sync/atomic"
	"time"
)

type SolveResult struct {
	Status string // unsat | sat | unknown | timeout | error
	Solver string
	Ms     int64
	Output string // raw output (model / reason)
	All    map[string]string // per-solver status (thorough)
}

var solverSeq int64

type solverDef struct {
	name string
	args func(file string, timeoutMs int) []string
}

var solvers = []solverDef{
	{"z3-new", func(f string, t int) []string { return []string{"z3-new", fmt.Sprintf("-t:%d", t), f} }},
	{"z3", func(f string, t int) []string { return []string{"z3", fmt.Sprintf("-t:%d", t), f} }},
	{"cvc5", func(f string, t int) []string {
		return []string{"cvc5", "--incremental", fmt.Sprintf("--tlimit-per=%d", t), f}
	}},
}

func runOne(ctx context.Context, sd solverDef, file string, timeoutMs int) (string, string, int64) {
	args := sd.args(file, timeoutMs)
	cctx, cancel := context.WithTimeout(ctx, time.Duration(timeoutMs+2000)*time.Millisecond)
	defer cancel()
	cmd := exec.CommandContext(cctx, args[0], args[1:]...)
	var out bytes.Buffer
	cmd.Stdout = &out
	cmd.Stderr = &out
	t0 := time.Now()
	_ = cmd.Run()
	ms := time.Since(t0).Milliseconds()
	text := out.String()
	first := strings.TrimSpace(strings.SplitN(text, "\n", 2)[0])
	switch first {
	case "unsat", "sat", "unknown":
		return first, text, ms
	case "timeout":
		return "timeout", text, ms
	}
	if cctx.Err() != nil {
		return "timeout", text, ms
	}
	return "error", text, ms
}

// solve writes the script to a file and asks the solver daemon (a small child process
// started before the packages are loaded: spawning from the large verifier process is
// slow) to race the solvers on it.
func solve(script string, tmpdir string, timeoutMs int, agree bool) SolveResult {
	n := atomic.AddInt64(&solverSeq, 1)
	file := filepath.Join(tmpdir, fmt.Sprintf("q%d.smt2", n))
	if err := os.WriteFile(file, []byte(script), 0o644); err != nil {
		return SolveResult{Status: "error", Output: err.Error()}
	}
	defer os.Remove(file)
	if daemon != nil {
		return daemon.request(file, timeoutMs, agree)
	}
	return solveFile(file, timeoutMs, agree)
}

type solverDaemon struct {
	cmd  *exec.Cmd
	in   io.WriteCloser
	mu   sync.Mutex
	wait map[int64]chan SolveResult
	seq  int64
}

type daemonReq struct {
	ID      int64  `json:"id"`
	File    string `json:"file"`
	Timeout int    `json:"timeout"`
	Agree   bool   `json:"agree"`
}

type daemonResp struct {
	ID  int64       `json:"id"`
	Res SolveResult `json:"res"`
}

var daemon *solverDaemon

func startDaemon() {
	cmd := exec.Command(os.Args[0], "__solverd")
	in, err := cmd.StdinPipe()
	if err != nil {
		return
	}
	out, err := cmd.StdoutPipe()
	if err != nil {
		return
	}
	cmd.Stderr = os.Stderr
	if err := cmd.Start(); err != nil {
		return
	}
	d := &solverDaemon{cmd: cmd, in: in, wait: map[int64]chan SolveResult{}}
	go func() {
		dec := json.NewDecoder(out)
		for {
			var r daemonResp
			if err := dec.Decode(&r); err != nil {
				return
			}
			d.mu.Lock()
			ch := d.wait[r.ID]
			delete(d.wait, r.ID)
			d.mu.Unlock()
			if ch != nil {
				ch <- r.Res
			}
		}
	}()
	daemon = d
}

func (d *solverDaemon) request(file string, timeoutMs int, agree bool) SolveResult {
	ch := make(chan SolveResult, 1)
	d.mu.Lock()
	d.seq++
	id := d.seq
	d.wait[id] = ch
	data, _ := json.Marshal(daemonReq{id, file, timeoutMs, agree})
	d.in.Write(append(data, '\n'))
	d.mu.Unlock()
	select {
	case r := <-ch:
		return r
	case <-time.After(time.Duration(3*timeoutMs+10000) * time.Millisecond):
		return SolveResult{Status: "timeout", Output: "solver daemon did not answer"}
	}
}

// solverdMain is the body of the child process.
func solverdMain() {
	dec := json.NewDecoder(os.Stdin)
	enc := json.NewEncoder(os.Stdout)
	var mu sync.Mutex
	sem := make(chan bool, 16)
	for {
		var r daemonReq
		if err := dec.Decode(&r); err != nil {
			return
		}
		go func(r daemonReq) {
			sem <- true
			res := solveFile(r.File, r.Timeout, r.Agree)
			<-sem
			mu.Lock()
			enc.Encode(daemonResp{r.ID, res})
			mu.Unlock()
		}(r)
	}
}

func solveFile(file string, timeoutMs int, agree bool) SolveResult {
	type res struct {
		st, out, name string
		ms            int64
	}
	if !agree {
		// staged: z3-new alone first (cheap), then the other two in parallel.
		first := timeoutMs / 3
		if first < 3000 {
			first = timeoutMs
		}
		st, out, ms := runOne(context.Background(), solvers[0], file, first)
		if st == "unsat" || st == "sat" {
			return SolveResult{Status: st, Solver: solvers[0].name, Ms: ms, Output: out}
		}
		ctx, cancel := context.WithCancel(context.Background())
		defer cancel()
		ch := make(chan res, 2)
		for _, sd := range solvers[1:] {
			sd := sd
			go func() {
				s, o, m := runOne(ctx, sd, file, timeoutMs)
				ch <- res{s, o, sd.name, m}
			}()
		}
		best := res{st, out, solvers[0].name, ms}
		for i := 0; i < 2; i++ {
			r := <-ch
			if r.st == "unsat" || r.st == "sat" {
				return SolveResult{Status: r.st, Solver: r.name, Ms: r.ms + ms, Output: r.out}
			}
			if best.st == "error" {
				best = r
			}
		}
		return SolveResult{Status: best.st, Solver: best.name, Ms: best.ms, Output: best.out}
	}
	ch := make(chan res, len(solvers))
	for _, sd := range solvers {
		sd := sd
		go func() {
			s, o, m := runOne(context.Background(), sd, file, timeoutMs)
			ch <- res{s, o, sd.name, m}
		}()
	}
	all := map[string]string{}
	var win *res
	conflict := false
	for range solvers {
		r := <-ch
		all[r.name] = r.st
		if r.st == "unsat" || r.st == "sat" {
			if win == nil {
				rr := r
				win = &rr
			} else if win.st != r.st {
				conflict = true
			}
		}
	}
	if conflict {
		return SolveResult{Status: "error", Output: "solver disagreement", All: all}
	}
	if win != nil {
		return SolveResult{Status: win.st, Solver: win.name, Ms: win.ms, Output: win.out, All: all}
	}
	return SolveResult{Status: "unknown", All: all}
}
