package main

import (
	"fmt"
	"regexp"
	"sort"
	"strings"
)

// Sort is an SMT sort, printed as SMT-LIB text.
type Sort string

const (
	SBool Sort = "Bool"
	SInt  Sort = "Int"
	SReal Sort = "Real"
	SStr  Sort = "Str" // uninterpreted: Go strings
	SV    Sort = "V"   // uninterpreted: pointers, maps, chans, funcs, interface values
	SSl   Sort = "Sl"  // uninterpreted: slice values
)

func ArrSort(idx, elem Sort) Sort { return Sort("(Array " + string(idx) + " " + string(elem) + ")") }

// arrParts splits "(Array A B)" into A, B.
func arrParts(s Sort) (Sort, Sort, bool) {
	str := string(s)
	if !strings.HasPrefix(str, "(Array ") {
		return "", "", false
	}
	body := str[len("(Array ") : len(str)-1]
	// first sort token
	depth := 0
	for i, c := range body {
		switch c {
		case '(':
			depth++
		case ')':
			depth--
		case ' ':
			if depth == 0 {
				return Sort(body[:i]), Sort(body[i+1:]), true
			}
		}
	}
	return "", "", false
}

// Term is an SMT term with its sort.
type Term struct {
	S    string
	Sort Sort
}

func (t *Term) String() string { return t.S }

func mk(sort Sort, format string, args ...interface{}) *Term {
	return &Term{S: fmt.Sprintf(format, args...), Sort: sort}
}

var (
	tTrue  = &Term{"true", SBool}
	tFalse = &Term{"false", SBool}
	tNull  = &Term{"null", SV}
)

func intLit(n int64) *Term {
	if n < 0 {
		return &Term{fmt.Sprintf("(- %d)", -n), SInt}
	}
	return &Term{fmt.Sprintf("%d", n), SInt}
}

func tNot(a *Term) *Term {
	switch a.S {
	case "true":
		return tFalse
	case "false":
		return tTrue
	}
	if strings.HasPrefix(a.S, "(not ") {
		return &Term{a.S[5 : len(a.S)-1], SBool}
	}
	return mk(SBool, "(not %s)", a.S)
}

func tAnd(as ...*Term) *Term {
	var parts []string
	for _, a := range as {
		if a == nil || a.S == "true" {
			continue
		}
		if a.S == "false" {
			return tFalse
		}
		parts = append(parts, a.S)
	}
	switch len(parts) {
	case 0:
		return tTrue
	case 1:
		return &Term{parts[0], SBool}
	}
	return &Term{"(and " + strings.Join(parts, " ") + ")", SBool}
}

func tOr(as ...*Term) *Term {
	var parts []string
	for _, a := range as {
		if a == nil || a.S == "false" {
			continue
		}
		if a.S == "true" {
			return tTrue
		}
		parts = append(parts, a.S)
	}
	switch len(parts) {
	case 0:
		return tFalse
	case 1:
		return &Term{parts[0], SBool}
	}
	return &Term{"(or " + strings.Join(parts, " ") + ")", SBool}
}

func tImp(a, b *Term) *Term {
	if a.S == "true" {
		return b
	}
	if a.S == "false" || b.S == "true" {
		return tTrue
	}
	return mk(SBool, "(=> %s %s)", a.S, b.S)
}

func tEq(a, b *Term) *Term {
	if a.S == b.S {
		return tTrue
	}
	return mk(SBool, "(= %s %s)", a.S, b.S)
}

func tIte(c, a, b *Term) *Term {
	if c.S == "true" {
		return a
	}
	if c.S == "false" {
		return b
	}
	if a.S == b.S {
		return a
	}
	return mk(a.Sort, "(ite %s %s %s)", c.S, a.S, b.S)
}

func tSelect(arr, idx *Term) *Term {
	_, e, ok := arrParts(arr.Sort)
	if !ok {
		panic("select on non-array " + arr.S + " : " + string(arr.Sort))
	}
	return mk(e, "(select %s %s)", arr.S, idx.S)
}

func tStore(arr, idx, v *Term) *Term {
	return mk(arr.Sort, "(store %s %s %s)", arr.S, idx.S, v.S)
}

func tApp(sort Sort, f string, args ...*Term) *Term {
	if len(args) == 0 {
		return &Term{f, sort}
	}
	parts := make([]string, len(args))
	for i, a := range args {
		parts[i] = a.S
	}
	return &Term{"(" + f + " " + strings.Join(parts, " ") + ")", sort}
}

// smtName makes s a legal SMT simple symbol (quoted if needed).
func smtName(s string) string {
	ok := true
	for _, c := range s {
		if !(c >= 'a' && c <= 'z' || c >= 'A' && c <= 'Z' || c >= '0' && c <= '9' || strings.ContainsRune("_.$@!%&*+-/<>=?^~", c)) {
			ok = false
			break
		}
	}
	if ok && s != "" && !(s[0] >= '0' && s[0] <= '9') {
		return s
	}
	s = strings.ReplaceAll(s, "|", "!")
	s = strings.ReplaceAll(s, "\\", "!")
	return "|" + s + "|"
}

// Script accumulates declarations and assertions shared by all obligations of one function.
type Script struct {
	declSeen map[string]bool
	decls    []string // declare-fun / declare-const lines in order
	asserts  []string // assertion bodies
	strLits  map[string]string // literal text -> const name
	fresh    map[string]int
	axioms   []string
	gaxioms  []string // global axioms from contract files: emitted only when relevant
}

func newScript() *Script {
	return &Script{declSeen: map[string]bool{}, strLits: map[string]string{}, fresh: map[string]int{}}
}

func (s *Script) declareConst(name string, sort Sort) {
	if s.declSeen[name] {
		return
	}
	s.declSeen[name] = true
	s.decls = append(s.decls, fmt.Sprintf("(declare-fun %s () %s)", name, sort))
}

func (s *Script) declareFun(name string, args []Sort, res Sort) {
	if s.declSeen[name] {
		return
	}
	s.declSeen[name] = true
	parts := make([]string, len(args))
	for i, a := range args {
		parts[i] = string(a)
	}
	s.decls = append(s.decls, fmt.Sprintf("(declare-fun %s (%s) %s)", name, strings.Join(parts, " "), res))
}

// axiomOnce adds a global axiom keyed by its text.
func (s *Script) axiomOnce(ax string) {
	key := "ax:" + ax
	if s.declSeen[key] {
		return
	}
	s.declSeen[key] = true
	s.axioms = append(s.axioms, ax)
}

// axiomFor adds an axiom that is emitted only in queries where the symbol sym occurs.
func (s *Script) axiomFor(sym, ax string) {
	key := "axf:" + ax
	if s.declSeen[key] {
		return
	}
	s.declSeen[key] = true
	s.gaxioms = append(s.gaxioms, "REQ:"+sym+"\x00"+ax)
}

func (s *Script) freshConst(base string, sort Sort) *Term {
	base = strings.Map(func(r rune) rune {
		if r >= 'a' && r <= 'z' || r >= 'A' && r <= 'Z' || r >= '0' && r <= '9' || r == '_' || r == '.' || r == '$' || r == '@' || r == '!' {
			return r
		}
		return '_'
	}, base)
	s.fresh[base]++
	name := fmt.Sprintf("%s!%d", base, s.fresh[base])
	s.declareConst(name, sort)
	return &Term{name, sort}
}

func (s *Script) assert(t *Term) {
	if t.S == "true" {
		return
	}
	s.asserts = append(s.asserts, t.S)
}

// strLit returns the constant standing for a Go string literal.
func (s *Script) strLit(v string) *Term {
	if v == "" {
		return &Term{"emptystr", SStr}
	}
	if n, ok := s.strLits[v]; ok {
		return &Term{n, SStr}
	}
	name := fmt.Sprintf("str!%d", len(s.strLits))
	s.strLits[v] = name
	return &Term{name, SStr}
}

const prelude = `(set-option :produce-models true)
(set-logic ALL)
(declare-sort Str 0)
(declare-sort V 0)
(declare-sort Sl 0)
(declare-fun null () V)
(declare-fun nilsl () Sl)
(declare-fun slen (Sl) Int)
(declare-fun len_s (Str) Int)
(declare-fun cat (Str Str) Str)
(declare-fun emptystr () Str)
(declare-fun dyntype (V) Int)
(declare-fun birth (V) Int)
(assert (forall ((s Sl)) (! (>= (slen s) 0) :pattern ((slen s)))))
(assert (forall ((s Str)) (! (>= (len_s s) 0) :pattern ((len_s s)))))
(assert (= (slen nilsl) 0))
(assert (= (len_s emptystr) 0))
(assert (forall ((s Str)) (! (=> (= (len_s s) 0) (= s emptystr)) :pattern ((len_s s)))))
(assert (forall ((a Str) (b Str)) (! (= (len_s (cat a b)) (+ (len_s a) (len_s b))) :pattern ((cat a b)))))
(assert (forall ((a Str)) (! (and (= (cat a emptystr) a) (= (cat emptystr a) a)) :pattern ((cat a emptystr)) :pattern ((cat emptystr a)))))
`

// render produces a full script for one goal: all assertions plus (not goal) under guard.
func (s *Script) render(extra []string, getValues []string) string {
	var b strings.Builder
	b.WriteString(prelude)
	// string literals: distinct, known length
	type lit struct{ text, name string }
	var lits []lit
	for t, n := range s.strLits {
		lits = append(lits, lit{t, n})
	}
	sort.Slice(lits, func(i, j int) bool { return lits[i].name < lits[j].name })
	for _, l := range lits {
		fmt.Fprintf(&b, "(declare-fun %s () Str) ; %q\n", l.name, trunc(l.text, 60))
		fmt.Fprintf(&b, "(assert (= (len_s %s) %d))\n", l.name, len(l.text))
	}
	if len(lits) > 0 {
		b.WriteString("(assert (distinct emptystr")
		for _, l := range lits {
			b.WriteString(" " + l.name)
		}
		b.WriteString("))\n")
	}
	// consttext(s): s is built from string literals of the program text only (literals and their concatenations); used to
	// state that a message shown to a client carries no run-time text such as a storage error
	usesCtext := false
	for _, a := range s.asserts {
		if strings.Contains(a, "(ctext ") {
			usesCtext = true
			break
		}
	}
	for _, a := range extra {
		if strings.Contains(a, "(ctext ") {
			usesCtext = true
		}
	}
	if usesCtext {
		b.WriteString("(declare-fun ctext (Str) Bool)\n(assert (ctext emptystr))\n")
		for _, l := range lits {
			fmt.Fprintf(&b, "(assert (ctext %s))\n", l.name)
		}
		b.WriteString("(assert (forall ((a Str) (b Str)) (! (=> (and (ctext a) (ctext b)) (ctext (cat a b))) :pattern ((cat a b)))))\n")
	}
	for _, d := range s.decls {
		b.WriteString(d)
		b.WriteByte('\n')
	}
	for _, a := range s.axioms {
		fmt.Fprintf(&b, "(assert %s)\n", a)
	}
	for _, a := range s.asserts {
		fmt.Fprintf(&b, "(assert %s)\n", a)
	}
	if len(s.gaxioms) > 0 {
		body := strings.Join(s.asserts, "\n") + strings.Join(extra, "\n")
		included := make([]bool, len(s.gaxioms))
		for changed := true; changed; {
			changed = false
			for i, a := range s.gaxioms {
				if included[i] {
					continue
				}
				ax := a
				relevant := false
				if strings.HasPrefix(a, "REQ:") {
					// definition of an opaque spec function: needed only where the function occurs
					k := strings.Index(a, "\x00")
					req := a[4:k]
					ax = a[k+1:]
					relevant = strings.Contains(body, req+" ") || strings.Contains(body, req+")")
				} else {
					syms := symRe.FindAllString(a, -1)
					relevant = len(syms) == 0
					for _, sy := range syms {
						if strings.Contains(body, sy) {
							relevant = true
							break
						}
					}
				}
				if relevant {
					included[i] = true
					changed = true
					body += "\n" + ax
					fmt.Fprintf(&b, "(assert %s)\n", ax)
				}
			}
		}
	}
	for _, e := range extra {
		fmt.Fprintf(&b, "(assert %s)\n", e)
	}
	b.WriteString("(check-sat)\n")
	if len(getValues) > 0 {
		b.WriteString("(get-value (" + strings.Join(getValues, " ") + "))\n")
	}
	return b.String()
}

var symRe = regexp.MustCompile(`\|?(pf_|sf_|glob_)[^ ()|]+\|?`)

func trunc(s string, n int) string {
	s = strings.ReplaceAll(s, "\n", " ")
	if len(s) > n {
		return s[:n] + "..."
	}
	return s
}
