package main

import (
	"fmt"
	"os"
	"strings"
	"time"

	"golang.org/x/tools/go/packages"
	"golang.org/x/tools/go/ssa"
	"golang.org/x/tools/go/ssa/ssautil"
)

func main() {
	t0 := time.Now()
	cfg := &packages.Config{Mode: packages.NeedName | packages.NeedFiles | packages.NeedCompiledGoFiles | packages.NeedImports | packages.NeedTypes | packages.NeedTypesSizes | packages.NeedSyntax | packages.NeedTypesInfo | packages.NeedDeps, Dir: "/repo", BuildFlags: []string{"-tags=verif"}}
	pkgs, err := packages.Load(cfg, ".", "./handler/...", "./storage", "./token/...", "./compose")
	if err != nil {
		panic(err)
	}
	fmt.Println("load", time.Since(t0))
	prog, spkgs := ssautil.AllPackages(pkgs, ssa.GlobalDebug)
	_ = prog
	for _, p := range spkgs {
		if p != nil && strings.HasPrefix(p.Pkg.Path(), "github.com/ory/fosite") {
			p.Build()
		}
	}
	fmt.Println("ssa", time.Since(t0))
	for _, p := range spkgs {
		if p == nil {
			continue
		}
		if f := p.Func(os.Args[1]); f != nil {
			f.WriteTo(os.Stdout)
		}
	}
	fmt.Println("done")
}
