package main

import (
	"golang.org/x/tools/go/ssa"
	"os/exec"
	"encoding/json"
	"flag"
	"fmt"
	"os"
	"path/filepath"
	"runtime"
	"runtime/debug"
	"sort"
	"strconv"
	"strings"
	"time"
)

const verifRoot = "/verif"

func main() {
	debug.SetGCPercent(gcPercent())
	debug.SetMemoryLimit(6 << 30)
	if len(os.Args) < 2 {
		fmt.Fprintln(os.Stderr, "usage: govc check|func|list ...")
		os.Exit(2)
	}
	if os.Args[1] == "__solverd" {
		solverdMain()
		return
	}
	startDaemon()
	switch os.Args[1] {
	case "check":
		os.Exit(cmdCheck(os.Args[2:]))
	case "func":
		os.Exit(cmdFunc(os.Args[2:]))
	case "list":
		os.Exit(cmdList(os.Args[2:]))
	case "bridges":
		v, err := setup("/repo", "quick")
		if err != nil {
			fmt.Fprintln(os.Stderr, err)
			os.Exit(2)
		}
		var keys []string
		for k := range v.bridges {
			keys = append(keys, k)
		}
		sort.Strings(keys)
		for _, k := range keys {
			for _, b := range v.bridges[k] {
				p := ""
				for _, f := range b.path {
					p += f.Name() + "."
				}
				fmt.Printf("%s  on %s = %s%s\n", k, b.typ, p, b.field.Name())
			}
		}
		os.Exit(0)
	default:
		fmt.Fprintln(os.Stderr, "unknown command", os.Args[1])
		os.Exit(2)
	}
}

func setup(repo string, tier string) (*Verifier, error) {
	v, err := loadVerifier(repo, filepath.Join(verifRoot, "stdlib"))
	if err != nil {
		return nil, err
	}
	tmp, err := os.MkdirTemp("", "govc")
	if err != nil {
		return nil, err
	}
	v.tmpdir = tmp
	v.timeoutMs = 45000
	if tier == "thorough" {
		v.timeoutMs = 120000
		v.agree = true
	}
	return v, nil
}

// labelsOf returns the property ids a contract has clauses for.
func labelsOf(bc *BoundContract) map[string]bool {
	out := map[string]bool{}
	for _, cl := range bc.C.Clauses {
		if cl.Label != "" {
			out[strings.SplitN(cl.Label, ".", 2)[0]] = true
		}
	}
	return out
}

// labelsWithCallees: the function's own labels plus the labels of the labelled preconditions of the contracts it calls
// directly (function contracts and interface method contracts). A labelled precondition becomes an obligation at the call
// site, in the caller: the caller therefore belongs to that property's check even if none of its own clauses says so.
func (v *Verifier) labelsWithCallees(bc *BoundContract) map[string]bool {
	out := labelsOf(bc)
	if bc.Func == nil {
		return out
	}
	fn := v.ssaFunc(bc.Func)
	if fn == nil {
		return out
	}
	var visit func(f *ssa.Function)
	seen := map[*ssa.Function]bool{}
	visit = func(f *ssa.Function) {
		if seen[f] {
			return
		}
		seen[f] = true
		for _, b := range f.Blocks {
			for _, in := range b.Instrs {
				if mc, ok := in.(*ssa.MakeClosure); ok {
					if lit, ok := mc.Fn.(*ssa.Function); ok {
						visit(lit)
					}
				}
				ci, ok := in.(ssa.CallInstruction)
				if !ok {
					continue
				}
				call := ci.Common()
				var cbc *BoundContract
				if call.IsInvoke() {
					cbc = v.contractFor(call.Method.FullName())
				} else if sc := call.StaticCallee(); sc != nil {
					cbc = v.contractForFn(sc)
				}
				if cbc == nil {
					continue
				}
				for _, cl := range cbc.C.Clauses {
					if cl.Kind == "requires" && cl.Label != "" {
						out[strings.SplitN(cl.Label, ".", 2)[0]] = true
					}
				}
			}
		}
		for _, lit := range f.AnonFuncs {
			visit(lit)
		}
	}
	visit(fn)
	return out
}

func cmdList(args []string) int {
	v, err := setup("/repo", "quick")
	if err != nil {
		fmt.Fprintln(os.Stderr, err)
		return 2
	}
	defer os.RemoveAll(v.tmpdir)
	var names []string
	for n, bc := range v.contracts {
		ls := labelsOf(bc)
		var l []string
		for k := range ls {
			l = append(l, k)
		}
		sort.Strings(l)
		kind := "func"
		if bc.C.IsIface {
			kind = "iface"
		}
		if bc.C.Trusted {
			kind += ",trusted"
		}
		names = append(names, fmt.Sprintf("%-8s %-90s %s", kind, n, strings.Join(l, ",")))
	}
	sort.Strings(names)
	fmt.Println(strings.Join(names, "\n"))
	return 0
}

// cmdFunc verifies the functions whose name contains the given substring and prints every obligation.
func cmdFunc(args []string) int {
	fs := flag.NewFlagSet("func", flag.ExitOnError)
	dump := fs.String("dump", "", "write SMT scripts of obligations whose name contains this string to /tmp/govc-dump")
	repo := fs.String("repo", "/repo", "repository root")
	timeout := fs.Int("timeout", 10000, "per-obligation timeout ms")
	all := fs.Bool("all", false, "also show pending obligations")
	fs.Parse(args)
	tl := time.Now()
	v, err := setup(*repo, "quick")
	if err == nil {
		for _, n := range v.loadNotes {
			fmt.Println("   load note:", n)
		}
	}
	if err != nil {
		fmt.Fprintln(os.Stderr, err)
		return 2
	}
	fmt.Fprintf(os.Stderr, "load %v\n", time.Since(tl))
	defer os.RemoveAll(v.tmpdir)
	v.timeoutMs = *timeout
	_ = all
	bad := 0
	for _, pat := range fs.Args() {
		var names []string
		for n, bc := range v.contracts {
			if strings.Contains(n, pat) && !bc.C.IsIface && strings.HasPrefix(bc.Func.Pkg().Path(), repoModule) && !bc.C.Trusted {
				names = append(names, n)
			}
		}
		sort.Strings(names)
		for _, n := range names {
			bc := v.contracts[n]
			res := v.generate(bc)
			fmt.Printf("== %s  (%d obligations, gen %d ms)\n", n, len(res.Obls), res.Ms)
			for _, u := range res.Unsup {
				fmt.Println("   UNSUPPORTED:", u)
				bad++
			}
			for _, u := range res.Notes {
				fmt.Println("   note:", u)
			}
			ts := time.Now()
			v.solveAll(res.Obls, runtime.NumCPU())
			fmt.Fprintf(os.Stderr, "solve %v\n", time.Since(ts))
			for _, o := range res.Obls {
				mark := "ok  "
				if o.Res.Status != "unsat" {
					mark = "FAIL"
					bad++
				}
				fmt.Printf("   %s %-8s %6dms %-7s %s\n", mark, o.Res.Status, o.Res.Ms, o.Res.Solver, o.Name)
				if o.Res.Status != "unsat" {
					fmt.Printf("        at %s  clause: %s\n", o.Where, o.Clause)
				}
				if *dump != "" && strings.Contains(o.Name, *dump) {
					os.MkdirAll("/tmp/govc-dump", 0o755)
					fn := filepath.Join("/tmp/govc-dump", sanitize(o.Name)+".smt2")
					os.WriteFile(fn, []byte(o.render()), 0o644)
					fmt.Println("        dumped", fn)
				}
			}
			// vacuity: some return must be reachable
			if len(res.Covers) > 0 && res.Script != nil {
				reach := 0
				for _, cv := range v.coverCheck(res) {
					if cv == "" {
						reach++
					} else {
						fmt.Printf("   cover: %s unreachable\n", cv)
					}
				}
				fmt.Printf("   covers: %d/%d returns reachable\n", reach, len(res.Covers))
			}
		}
	}
	if bad > 0 {
		return 1
	}
	return 0
}

func sanitize(s string) string {
	return strings.Map(func(r rune) rune {
		if r >= 'a' && r <= 'z' || r >= 'A' && r <= 'Z' || r >= '0' && r <= '9' || r == '.' || r == '-' || r == '_' || r == '#' || r == '@' {
			return r
		}
		return '_'
	}, s)
}

// ---------- check: the registered entry point ----------

type oblReport struct {
	Name   string `json:"name"`
	Clause string `json:"clause"`
	Kind   string `json:"kind"`
	Result string `json:"result"`
	Solver string `json:"solver"`
	Ms     int64  `json:"ms"`
}

type knownFinding struct {
	Property   string `json:"property"`
	Obligation string `json:"obligation"` // obligation name (with site)
	What       string `json:"what"`
	Status     string `json:"status"` // known | fixed
	Commit     string `json:"commit,omitempty"`
}

func loadKnownFindings() []knownFinding {
	var out []knownFinding
	data, err := os.ReadFile(filepath.Join(verifRoot, "known_findings.json"))
	if err != nil {
		return nil
	}
	json.Unmarshal(data, &out)
	return out
}

func cmdCheck(args []string) int {
	fs := flag.NewFlagSet("check", flag.ExitOnError)
	prop := fs.String("property", "", "property id, e.g. C12")
	tier := fs.String("tier", "quick", "quick|thorough")
	repo := fs.String("repo", "/repo", "repository root")
	register := fs.Bool("register", false, "record the generated obligation names as the registered set of this property")
	outDir := fs.String("out", verifRoot, "directory receiving evidence/ and replays/ (default /verif; use a scratch directory when checking a scratch copy)")
	fs.Parse(args)
	if os.Getenv("VERIF_TIER") != "" && *tier == "" {
		*tier = os.Getenv("VERIF_TIER")
	}
	seed := 0
	if s := os.Getenv("VERIF_SEED"); s != "" {
		seed, _ = strconv.Atoi(s)
	}
	t0 := time.Now()
	evPath := filepath.Join(*outDir, "evidence", *prop+".json")
	os.MkdirAll(filepath.Dir(evPath), 0o755)
	replayDir := filepath.Join(*outDir, "replays", *prop)
	os.RemoveAll(replayDir)
	os.MkdirAll(replayDir, 0o755)

	fail := func(obl string, detail string) int {
		p := filepath.Join(replayDir, sanitize(obl)+".json")
		data, _ := json.MarshalIndent(map[string]interface{}{"property": *prop, "obligation": obl, "detail": detail}, "", " ")
		os.WriteFile(p, data, 0o644)
		fmt.Printf("VIOLATION property=%s replay=%s no-failing-input-found\n", *prop, p)
		writeEvidence(evPath, *prop, *tier, seed, nil, nil, nil, []string{detail}, time.Since(t0).Seconds(), 1, 0)
		return 1
	}
	v, err := setup(*repo, *tier)
	if err != nil {
		// a tree that no longer loads, or a detached contract, cannot be proved
		return fail("load", "verifier could not load the tree or its contracts: "+err.Error())
	}
	defer os.RemoveAll(v.tmpdir)

	// functions with clauses labelled for this property
	var targets []*BoundContract
	for _, bc := range v.contracts {
		if bc.C.IsIface || bc.C.Trusted || !strings.HasPrefix(bc.Func.Pkg().Path(), repoModule) {
			continue
		}
		if v.labelsWithCallees(bc)[*prop] {
			targets = append(targets, bc)
		}
	}
	sort.Slice(targets, func(i, j int) bool { return targets[i].Full < targets[j].Full })
	registry := loadRegistry()
	expected := registry[*prop]
	if len(targets) == 0 && len(expected) == 0 {
		return fail("none", "no contract clause is labelled "+*prop)
	}
	// The check verifies the labelled functions and, transitively, every repo function whose (non-trusted) contract
	// is applied at one of their call sites: no assumption about repo code is used that the same check does not prove.
	var results []*FuncResult
	inSet := map[string]bool{}
	for _, t := range targets {
		inSet[t.Full] = true
	}
	round := targets
	for len(round) > 0 {
		rr := make([]*FuncResult, len(round))
		done := make(chan int, len(round))
		sem := make(chan bool, 8)
		for i := range round {
			go func(i int) {
				sem <- true
				rr[i] = v.generate(round[i])
				<-sem
				done <- i
			}(i)
		}
		for range round {
			<-done
		}
		results = append(results, rr...)
		var next []*BoundContract
		for _, r := range rr {
			for _, a := range r.Applied {
				if inSet[a] {
					continue
				}
				bc := v.contracts[a]
				if bc == nil || bc.C.IsIface || bc.C.Trusted || bc.Func == nil || bc.Func.Pkg() == nil || !strings.HasPrefix(bc.Func.Pkg().Path(), repoModule) {
					continue
				}
				inSet[a] = true
				next = append(next, bc)
			}
		}
		sort.Slice(next, func(i, j int) bool { return next[i].Full < next[j].Full })
		round = next
	}
	var obls []*Obligation
	var unclaimed []*Obligation
	var unsup []string
	var notes []string
	notes = append(notes, v.loadNotes...)
	{
		var ws []string
		for k := range v.wiring {
			ws = append(ws, strings.TrimPrefix(k, "F:"))
		}
		sort.Strings(ws)
		if len(ws) > 0 {
			notes = append(notes, "fields treated as never re-assigned after construction (checked by a scan of all stores in the repository): "+strings.Join(ws, ", "))
		}
	}
	trusted := map[string]bool{}
	var fnames []string
	for _, r := range results {
		fnames = append(fnames, r.Func)
		unsup = append(unsup, r.Unsup...)
		notes = append(notes, r.Notes...)
		for _, t := range r.Trusted {
			trusted[t] = true
		}
		for _, o := range r.Obls {
			if o.Label != "" && !strings.HasPrefix(o.Label, *prop+".") {
				continue // belongs to another property's check
			}
			if o.Pending {
				unclaimed = append(unclaimed, o)
				continue
			}
			obls = append(obls, o)
		}
	}
	// vacuity guard: assumptions in force must leave at least one return of every function reachable
	vacuity := map[string]string{}
	var vacuous []string
	{
		type vr struct {
			name string
			ok   int
			n    int
		}
		ch := make(chan vr, len(results))
		for _, r := range results {
			go func(r *FuncResult) {
				if r.Script == nil || len(r.Covers) == 0 {
					ch <- vr{r.Func, 0, 0}
					return
				}
				ok := 0
				for _, c := range v.coverCheck(r) {
					if c == "" {
						ok++
					}
				}
				ch <- vr{r.Func, ok, len(r.Covers)}
			}(r)
		}
		for range results {
			x := <-ch
			vacuity[x.name] = fmt.Sprintf("%d/%d returns reachable", x.ok, x.n)
			if x.n > 0 && x.ok == 0 {
				vacuous = append(vacuous, x.name)
			}
		}
	}
	// lemmas
	lobls, lunsup := v.lemmaObligations(*prop)
	obls = append(obls, lobls...)
	unsup = append(unsup, lunsup...)
	known := loadKnownFindings()
	for _, o := range obls {
		for i := range known {
			if known[i].Property == *prop && known[i].Status == "known" && known[i].Obligation == o.Name {
				o.TimeoutMs = 1500
			}
		}
	}
	v.solveAll(obls, runtime.NumCPU())

	isKnown := func(name string) *knownFinding {
		for i := range known {
			if known[i].Property == *prop && known[i].Status == "known" && known[i].Obligation == name {
				return &known[i]
			}
		}
		return nil
	}
	violations := 0
	discharged := 0
	var reports []oblReport
	var solverMs int64
	byLabel := map[string]int{}
	var lines []string
	knownHits := 0
	for _, o := range obls {
		reports = append(reports, oblReport{o.Name, o.Clause, o.Kind, o.Res.Status, o.Res.Solver, o.Res.Ms})
		solverMs += o.Res.Ms
		byLabel[baseName(o.Name)]++
		if o.Res.Status == "unsat" {
			discharged++
			continue
		}
		if kf := isKnown(o.Name); kf != nil {
			lines = append(lines, fmt.Sprintf("KNOWN-FINDING: property=%s %s [%s]", *prop, kf.What, o.Name))
			knownHits++
			continue
		}
		violations++
		p := filepath.Join(replayDir, sanitize(o.Name)+".json")
		rep := buildReplay(v, *prop, o)
		data, _ := json.MarshalIndent(rep, "", " ")
		os.WriteFile(p, data, 0o644)
		suffix := ""
		if !rep.Replayed {
			suffix = " no-failing-input-found"
		}
		lines = append(lines, fmt.Sprintf("VIOLATION property=%s replay=%s%s", *prop, p, suffix))
	}
	// a function that left the supported subset cannot be claimed
	for _, u := range unsup {
		violations++
		p := filepath.Join(replayDir, fmt.Sprintf("unsupported-%d.json", violations))
		data, _ := json.MarshalIndent(map[string]interface{}{"property": *prop, "obligation": "unsupported-construct", "detail": u}, "", " ")
		os.WriteFile(p, data, 0o644)
		lines = append(lines, fmt.Sprintf("VIOLATION property=%s replay=%s no-failing-input-found", *prop, p))
	}
	for _, f := range vacuous {
		violations++
		p := filepath.Join(replayDir, sanitize("vacuous-"+f)+".json")
		data, _ := json.MarshalIndent(map[string]interface{}{"property": *prop, "obligation": "vacuity:" + f, "detail": "no return of the function is reachable under the assumptions in force (contradictory requires/contracts): proofs of this function would be vacuous"}, "", " ")
		os.WriteFile(p, data, 0o644)
		lines = append(lines, fmt.Sprintf("VIOLATION property=%s replay=%s no-failing-input-found", *prop, p))
	}
	// registered obligations must still be generated
	for _, e := range expected {
		if byLabel[e] == 0 && !*register {
			violations++
			p := filepath.Join(replayDir, sanitize("missing-"+e)+".json")
			data, _ := json.MarshalIndent(map[string]interface{}{"property": *prop, "obligation": e, "detail": "registered obligation is no longer generated (contract detached, function renamed or clause removed)"}, "", " ")
			os.WriteFile(p, data, 0o644)
			lines = append(lines, fmt.Sprintf("VIOLATION property=%s replay=%s no-failing-input-found", *prop, p))
		}
	}
	// thorough tier: the regression replays of defects that were fixed (real inputs against the real code, injected with
	// go test -overlay; nothing is written into the repository). A replay that fails again is a violation with a failing input.
	var replayNotes []string
	if *tier == "thorough" {
		rv, rn := runReplays(*prop, *repo)
		replayNotes = rn
		for _, f := range rv {
			violations++
			lines = append(lines, fmt.Sprintf("VIOLATION property=%s replay=%s", *prop, f))
		}
	}
	notes = append(notes, replayNotes...)
	for _, l := range lines {
		fmt.Println(l)
	}
	if *register && violations == 0 {
		var names []string
		for n := range byLabel {
			if strings.Contains(n, "#C") { // only labelled obligations are required to exist
				names = append(names, n)
			}
		}
		sort.Strings(names)
		registry[*prop] = names
		data, _ := json.MarshalIndent(registry, "", " ")
		os.WriteFile(filepath.Join(verifRoot, "obligations.json"), data, 0o644)
	}
	var tb []string
	for t := range trusted {
		tb = append(tb, t)
	}
	sort.Strings(tb)
	var extra []string
	for _, o := range unclaimed {
		extra = append(extra, o.Name)
	}
	wall := time.Since(t0).Seconds()
	ev := evidenceData{fnames: fnames, reports: reports, trusted: tb, notes: notes, unclaimed: extra, solverMs: solverMs, known: knownHits, vacuity: vacuity}
	writeEvidenceFull(evPath, *prop, *tier, seed, ev, wall, violations, discharged, len(obls))
	fmt.Printf("%s: %d obligations, %d discharged, %d known findings, %d violations, %d functions, %.1fs\n", *prop, len(obls), discharged, knownHits, violations, len(fnames), wall)
	if violations > 0 {
		return 1
	}
	return 0
}

func baseName(obl string) string {
	if k := strings.Index(obl, "@"); k >= 0 {
		return obl[:k]
	}
	return obl
}

// the fixpoint iteration over loop write sets re-creates the context, so names stay stable

func loadRegistry() map[string][]string {
	out := map[string][]string{}
	data, err := os.ReadFile(filepath.Join(verifRoot, "obligations.json"))
	if err != nil {
		return out
	}
	json.Unmarshal(data, &out)
	return out
}

type evidenceData struct {
	fnames    []string
	reports   []oblReport
	trusted   []string
	notes     []string
	unclaimed []string
	solverMs  int64
	known     int
	vacuity   map[string]string
}

var standingAssumptions = []string{
	"integers are mathematical (no overflow); float64->int64 truncates toward zero; time.Time/Duration are integer nanoseconds and time.Now yields fresh non-decreasing instants",
	"strings, slices and references are uninterpreted sorts with length/concatenation/sub-slice axioms; parsing, encoding and formatting functions are uninterpreted (contracts in /verif/stdlib/*.spec, each listed in trusted_base when used)",
	"cryptographic primitives (digests, HMAC, bcrypt, signatures) are uninterpreted functions",
	"no concurrency: each function is verified as sequential code; C19 is decided as lock discipline (guarded accesses, lock order, release), not by exploring interleavings",
	"interface methods declared pureiface are abstract fields: pure, total and independent of context.Context arguments; function values of unknown origin are pure uninterpreted functions",
	"interface method contracts are assumed at every dynamic call (listed in trusted_base); concrete types are checked against them only where a contract on the concrete method says so",
	"all storage fields of a handler are views of one abstract store (ghost maps)",
	"error sentinels, constant string slices and fields declared 'wiring' are read from the current source and assumed immutable; a scan of every store instruction in the repository checks this on each run",
	"functions marked trusted, and clauses written 'assume', are not proved (listed in trusted_base when used)",
	"the request, responder and session objects an application passes to the provider are its own, not objects a store holds (preconditions !shared[...] of the token-endpoint handlers)",
	"history lemmas (functions verifHistory* in verif_history.go, build tag verif, never called): proved from the handler contracts for every sequence of the listed operations, assuming that a newly generated code/token signature has never been stored before and that a new request's id is not the id of an existing grant; the environment interface verifEnv is unconstrained otherwise",
	"a non-nil interface holding a nil pointer is identified with a nil interface; slices are immutable values and sub-slices do not alias their parent; termination, panics other than the swept index/map/nil checks and memory exhaustion are not verified",
}

func writeEvidence(path, prop, tier string, seed int, fnames []string, reports []oblReport, trusted []string, notes []string, wall float64, violations, discharged int) {
	writeEvidenceFull(path, prop, tier, seed, evidenceData{fnames: fnames, reports: reports, trusted: trusted, notes: notes}, wall, violations, discharged, len(reports))
}

func writeEvidenceFull(path, prop, tier string, seed int, ev evidenceData, wall float64, violations, discharged, total int) {
	samples := []interface{}{}
	for i, r := range ev.reports {
		if i >= 5 {
			break
		}
		samples = append(samples, r)
	}
	if len(samples) == 0 {
		samples = append(samples, "no obligation generated")
	}
	if ev.trusted == nil {
		ev.trusted = []string{}
	}
	// obligations listed in known_findings.json are reported separately: they are not claimed as proved
	claimed := total - ev.known
	cov := map[string]interface{}{
		"obligations":              claimed,
		"discharged":               discharged,
		"obligations_generated":    total,
		"known_finding_obligations_not_discharged": ev.known,
		"checker_cmd":              fmt.Sprintf("bin/govc check --property %s --tier %s (VCs over go/ssa of /repo's current tree; z3-new 5.1.0 / z3 4.8.12 / cvc5 1.0.3)", prop, tier),
		"trusted_base":             ev.trusted,
		"samples":                  samples,
		"functions_under_contract": ev.fnames,
		"obligation_results":       ev.reports,
		"unclaimed_obligations":    ev.unclaimed,
		"solver_ms_total":          ev.solverMs,
		"known_findings_hit":       ev.known,
		"engine_notes":             ev.notes,
		"vacuity_guard":            ev.vacuity,
	}
	if tier != "quick" && tier != "thorough" {
		tier = "quick"
	}
	out := map[string]interface{}{
		"property_id": prop,
		"tier":        tier,
		"seed":        seed,
		"level":       "proof",
		"coverage":    cov,
		"assumptions": standingAssumptions,
		"wall_s":      wall,
		"violations":  violations,
	}
	data, _ := json.MarshalIndent(out, "", " ")
	os.WriteFile(path, data, 0o644)
}

// coverCheck returns, per return site, "" if it may be reachable or its name if the
// assumptions in force make it unreachable (vacuity signal).
func (v *Verifier) coverCheck(res *FuncResult) []string {
	out := make([]string, len(res.Covers))
	done := make(chan bool, len(res.Covers))
	for i, cv := range res.Covers {
		go func(i int, cv *Cover) {
			view := res.Script.render([]string{cv.Reach.S}, nil)
			r := solve(view, v.tmpdir, 1500, false)
			if r.Status == "unsat" {
				out[i] = cv.Name
			}
			done <- true
		}(i, cv)
	}
	for range res.Covers {
		<-done
	}
	return out
}

func gcPercent() int {
	if s := os.Getenv("GOVC_GC"); s != "" {
		n, _ := strconv.Atoi(s)
		return n
	}
	return 800
}

type replayEntry struct {
	File     string `json:"file"`
	Property string `json:"property"`
	Dir      string `json:"dir"`
	Expect   string `json:"expect"`
	Race     bool   `json:"race"`
}

// runReplays runs the replay tests of fixed defects of one property against the tree under check.
// It returns the replay files that fail again, and notes for the evidence file.
func runReplays(prop, repo string) (failed []string, notes []string) {
	dir := filepath.Join(verifRoot, "replay_tests")
	data, err := os.ReadFile(filepath.Join(dir, "INDEX.json"))
	if err != nil {
		return nil, []string{"no replay index"}
	}
	var idx []replayEntry
	if json.Unmarshal(data, &idx) != nil {
		return nil, []string{"replay index unreadable"}
	}
	for _, e := range idx {
		if e.Property != prop || e.Expect != "pass" {
			continue
		}
		tmp, err := os.MkdirTemp("", "govc-replay")
		if err != nil {
			continue
		}
		ov := filepath.Join(tmp, "ov.json")
		target := filepath.Join(repo, e.Dir, "zz_verif_replay_test.go")
		src := filepath.Join(dir, e.File)
		os.WriteFile(ov, []byte(fmt.Sprintf(`{"Replace": {%q: %q}}`, target, src)), 0o644)
		args := []string{"test", "-overlay", ov, "-vet=off", "-count=1", "-timeout", "120s", "-run", "TestVerifReplay"}
		if e.Race {
			args = append(args, "-race")
		}
		args = append(args, "./"+e.Dir+"/")
		cmd := exec.Command("go", args...)
		cmd.Dir = repo
		cmd.Env = append(os.Environ(), "GOFLAGS=-mod=mod", "GOPROXY=off", "GOSUMDB=off", "GOTOOLCHAIN=local")
		out, err := cmd.CombinedOutput()
		os.RemoveAll(tmp)
		text := string(out)
		switch {
		case err == nil:
			notes = append(notes, "replay "+e.File+": passes (the fixed defect has not returned)")
		case strings.Contains(text, "--- FAIL"):
			failed = append(failed, src)
			notes = append(notes, "replay "+e.File+": FAILS again: "+trunc(text, 400))
		default:
			notes = append(notes, "replay "+e.File+": could not be built or run (not counted): "+trunc(text, 300))
		}
	}
	return failed, notes
}
