package main

import (
	"fmt"
	"go/types"
	"sort"
	"strings"

	"golang.org/x/tools/go/ssa"
)

func (fr *Frame) execCall(i *ssa.Call, call *ssa.CallCommon, st *State, reach *Term) *Val {
	var args []*Val
	for _, a := range call.Args {
		args = append(args, fr.val(a))
	}
	fnv := fr.val(call.Value)
	return fr.execCallWith(i, call, fnv, args, st, reach)
}

func resultType(sig *types.Signature) types.Type {
	switch sig.Results().Len() {
	case 0:
		return types.NewTuple()
	case 1:
		return sig.Results().At(0).Type()
	}
	return sig.Results()
}

func (fr *Frame) callSite(name string) string {
	fr.c.callSeq[name]++
	return fmt.Sprintf("call(%s)#%d", name, fr.c.callSeq[name])
}

func (fr *Frame) execCallWith(instr ssa.Instruction, call *ssa.CallCommon, fnv *Val, args []*Val, st *State, reach *Term) *Val {
	c := fr.c
	sig := call.Signature()
	rt := resultType(sig)
	// builtins
	if b, ok := call.Value.(*ssa.Builtin); ok {
		return fr.execBuiltin(instr, b, call, args, st, reach, rt)
	}
	if call.IsInvoke() {
		m := call.Method
		full := m.FullName()
		site := fr.callSite(m.Name())
		fr.checkAsserts(m.Name(), st, reach, append([]*Val{fnv}, args...)...)
		if bc := c.V.contractFor(full); bc != nil {
			return fr.applyContract(instr, bc, sig, fnv, args, st, reach, site)
		}
		if c.V.isPureIface(m) {
			v, err := c.pureMethodApp(st, m, fnv, args)
			if err == nil {
				for _, l := range leavesOf(v.Typ) {
					if lv := v.at(l.path); lv.T != nil && lv.T.Sort == SV {
						c.assumeExisting(st, lv.T, reach)
					}
				}
				return v
			}
			c.notes = append(c.notes, fmt.Sprintf("pure interface method %s not applicable: %v", full, err))
		}
		return fr.havocCall(instr, full, rt, st, reach)
	}
	var callee *ssa.Function
	var bind []*Val
	if sc := call.StaticCallee(); sc != nil {
		callee = sc
		if mc, ok := call.Value.(*ssa.MakeClosure); ok {
			for _, b := range mc.Bindings {
				bind = append(bind, fr.val(b))
			}
		}
	} else if fnv != nil && fnv.Clo != nil {
		callee = fnv.Clo.Fn
		bind = fnv.Clo.Bind
	}
	if callee == nil && fnv != nil && fnv.T != nil {
		// a function value that may be one of the closures created in this function: dispatch on identity
		var cands []*Val
		for _, cv := range fr.closures {
			if types.Identical(cv.Clo.Fn.Signature, sig) && (len(cv.Clo.Fn.Blocks) > 0 || c.V.contractForFn(cv.Clo.Fn) != nil) {
				cands = append(cands, cv)
			}
		}
		if len(cands) > 0 {
			return fr.dispatchClosures(instr, cands, fnv, args, st, reach, rt)
		}
	}
	if callee == nil {
		// unknown function value: pure, total, uninterpreted
		v, err := c.applyFuncValue(fnv, args, sig)
		if err != nil {
			fr.unsupported(instr.Pos(), "call of function value: %v", err)
			return c.freshVal("dyncall", rt)
		}
		return v
	}
	return fr.callStatic(instr, callee, bind, sig, args, st, reach, rt)
}

// callStatic executes a call whose target function is known.
func (fr *Frame) callStatic(instr ssa.Instruction, callee *ssa.Function, bind []*Val, sig *types.Signature, args []*Val, st *State, reach *Term, rt types.Type) *Val {
	c := fr.c
	full := callee.String()
	if callee.Object() != nil {
		if f, ok := callee.Object().(*types.Func); ok {
			full = f.FullName()
		}
	}
	name := callee.Name()
	if k := strings.Index(name, "["); k > 0 {
		name = name[:k] // instantiation of a generic function: Get[string,...] is addressed as Get
	}
	site := fr.callSite(name)
	fr.checkAsserts(name, st, reach, args...)
	if v, ok := fr.nativeModel(instr, full, callee, args, st, reach, rt); ok {
		return v
	}
	// synthetic wrappers and bound-method thunks are always inlined
	if callee.Synthetic != "" && len(callee.Blocks) > 0 && (strings.HasPrefix(callee.Synthetic, "wrapper") || strings.HasPrefix(callee.Synthetic, "bound") || strings.HasPrefix(callee.Synthetic, "thunk")) {
		return fr.inline(instr, callee, bind, args, st, reach, rt)
	}
	if bc := c.V.contractFor(full); bc != nil {
		if bc.C.Inline && len(callee.Blocks) > 0 {
			return fr.inline(instr, callee, bind, args, st, reach, rt)
		}
		return fr.applyContract(instr, bc, sig, nil, args, st, reach, site)
	}
	if callee.Parent() != nil && len(callee.Blocks) > 0 {
		// anonymous function with statically known target
		return fr.inline(instr, callee, bind, args, st, reach, rt)
	}
	if fr.inlinableHelper(callee) {
		// a small loop-free helper of the repository without a contract of its own is executed in place: extracting
		// such a helper from a function under contract (or folding one back) does not change what is proved
		c.inlineStack = append(c.inlineStack, callee)
		defer func() { c.inlineStack = c.inlineStack[:len(c.inlineStack)-1] }()
		return fr.inline(instr, callee, bind, args, st, reach, rt)
	}
	if callee.Pkg != nil && !strings.HasPrefix(callee.Pkg.Pkg.Path(), "github.com/ory/fosite") {
		if ci, ok := instr.(ssa.CallInstruction); ok && !ci.Common().IsInvoke() {
			free := true
			for _, a := range ci.Common().Args {
				if !refFree(a, 0) {
					free = false
					break
				}
			}
			if free {
				// a library function without a spec that receives only numbers, strings and literals (log.Printf("...", s))
				// cannot reach any object of this program: nothing is havocked, the result is unknown
				c.notes = append(c.notes, fmt.Sprintf("%s: call to %s has no contract; its arguments carry no reference, state kept", fr.posShort(instr.Pos()), full))
				c.tick(st, reach)
				v := c.freshVal("res_"+shortName(full), rt)
				for _, l := range leavesOf(rt) {
					if lv := v.at(l.path); lv.T != nil && lv.T.Sort == SV {
						c.assumeExisting(st, lv.T, reach)
					}
				}
				return v
			}
		}
	}
	return fr.havocCall(instr, full, rt, st, reach)
}

// refFree: the SSA value cannot carry a reference to a heap object of the program: constants, numbers, strings, booleans,
// such values boxed into an interface, and the argument slice of a variadic call whose elements are all of that kind.
func refFree(v ssa.Value, depth int) bool {
	if depth > 3 {
		return false
	}
	basic := func(t types.Type) bool {
		b, ok := t.Underlying().(*types.Basic)
		return ok && b.Kind() != types.UnsafePointer
	}
	switch x := v.(type) {
	case *ssa.Const:
		return true
	case *ssa.MakeInterface:
		return basic(x.X.Type()) && refFree(x.X, depth+1)
	case *ssa.Slice:
		al, ok := x.X.(*ssa.Alloc)
		if !ok {
			return false
		}
		refs := al.Referrers()
		if refs == nil {
			return false
		}
		for _, r := range *refs {
			switch u := r.(type) {
			case *ssa.IndexAddr:
				ur := u.Referrers()
				if ur == nil {
					return false
				}
				for _, w := range *ur {
					st, ok := w.(*ssa.Store)
					if !ok || !refFree(st.Val, depth+1) {
						return false
					}
				}
			case *ssa.Slice:
			default:
				return false
			}
		}
		return true
	}
	return basic(v.Type())
}

// inlinableHelper: a named function of the repository without contract that is small, loop-free, not recursive and
// uses no goroutines, defers or channels.
func (fr *Frame) inlinableHelper(callee *ssa.Function) bool {
	c := fr.c
	if callee == nil || callee.Pkg == nil || callee.Synthetic != "" || len(callee.Blocks) == 0 || c.depth > 3 {
		return false
	}
	if !strings.HasPrefix(callee.Pkg.Pkg.Path(), "github.com/ory/fosite") {
		return false
	}
	if callee == fr.fn {
		return false
	}
	for _, f := range c.inlineStack {
		if f == callee {
			return false
		}
	}
	n := 0
	for _, b := range callee.Blocks {
		for _, s := range b.Succs {
			if s.Dominates(b) {
				return false // loop
			}
		}
		for _, in := range b.Instrs {
			n++
			switch in.(type) {
			case *ssa.Go, *ssa.Defer, *ssa.RunDefers, *ssa.Select, *ssa.Send, *ssa.Range, *ssa.Next, *ssa.MakeChan:
				return false
			}
		}
	}
	return n <= 80
}

// havocCall models a call to a function without contract: anything may have changed.
func (fr *Frame) havocCall(instr ssa.Instruction, full string, rt types.Type, st *State, reach *Term) *Val {
	c := fr.c
	c.notes = append(c.notes, fmt.Sprintf("%s: call to %s has no contract: heap and ghost state havocked", fr.posShort(instr.Pos()), full))
	c.havocAll(st, reach, nil)
	c.V.assumeGlobalAxioms(c, st, reach)
	v := c.freshVal("res_"+shortName(full), rt)
	for _, l := range leavesOf(rt) {
		if lv := v.at(l.path); lv.T != nil && lv.T.Sort == SV {
			c.assumeExisting(st, lv.T, reach)
		}
	}
	return v
}

func shortName(full string) string {
	if k := strings.LastIndexAny(full, "./)"); k >= 0 && k+1 < len(full) {
		return full[k+1:]
	}
	return full
}

// checkAsserts discharges `assert @call(name)#n` clauses of the function's contract.
func (fr *Frame) checkAsserts(name string, st *State, reach *Term, callArgs ...*Val) {
	if fr.contract == nil {
		return
	}
	n := fr.c.callSeq[name]
	for _, cl := range fr.contract.Clauses {
		if cl.Kind != "assert" || cl.Callee != name || (cl.CallN != 0 && cl.CallN != n) {
			continue
		}
		env := fr.envAt(nil, st, nil)
		env.old = fr.c.entry
		env.frame = fr
		env.blk = fr.curBlock
		env.atEnd = true
		// $arg0, $arg1, ...: the operands of this call (for a method called statically, $arg0 is the receiver)
		for i, a := range callArgs {
			if a != nil {
				env.vars[fmt.Sprintf("$arg%d", i)] = a
			}
		}
		g, err := env.evalBool(cl.Expr)
		if err != nil {
			fr.unsupported(0, "assert %s: %v", cl.Text, err)
			continue
		}
		fr.c.addObl(fr, &Obligation{Label: cl.Label, Pending: cl.Pending, Kind: "assert", Site: fmt.Sprintf("call(%s)#%d", name, n), Clause: cl.Text, Pos: cl.Pos, Guard: reach, Goal: g})
	}
}

// inline executes the callee's body in place.
func (fr *Frame) inline(instr ssa.Instruction, callee *ssa.Function, bind, args []*Val, st *State, reach *Term, rt types.Type) *Val {
	c := fr.c
	if c.depth > 8 {
		fr.unsupported(instr.Pos(), "inlining too deep at %s", callee.String())
		return c.freshVal("inl", rt)
	}
	c.depth++
	defer func() { c.depth-- }()
	sub := &Frame{c: c, fn: callee, id: fr.id + "/" + fr.posShort(instr.Pos()), params: args, free: bind}
	if bc := c.V.contractForFn(callee); bc != nil && callee.Pkg != nil {
		sub.contract = bc.C
		env := newEnv(c, callee.Pkg.Pkg)
		env.old = st.clone()
		bc.bindParams(env, nil, args, callee)
		sub.env = env
	} else if callee.Parent() != nil && fr.contract != nil {
		// closures share the enclosing function's contract for nothing but lets
		sub.env = nil
	}
	type retInfo struct {
		st    *State
		guard *Term
		res   []*Val
	}
	var rets []retInfo
	sub.onReturn = func(f *Frame, ret *ssa.Return, s *State, g *Term, res []*Val) {
		rets = append(rets, retInfo{s.clone(), g, res})
	}
	sub.run(st, reach)
	if sub.unsup {
		fr.unsup = true
	}
	if len(rets) == 0 {
		// callee never returns (panics): the rest is unreachable
		c.sc.assert(tNot(reach))
		return c.freshVal("noret", rt)
	}
	var states []*State
	var conds []*Term
	for _, r := range rets {
		states = append(states, r.st)
		conds = append(conds, r.guard)
	}
	merged := c.merge("ret_"+callee.Name(), states, conds)
	st.h = merged.h
	sig := callee.Signature
	switch sig.Results().Len() {
	case 0:
		return &Val{Typ: rt}
	case 1:
		var vs []*Val
		for _, r := range rets {
			vs = append(vs, r.res[0])
		}
		return fr.joinVals("ret_"+callee.Name(), sig.Results().At(0).Type(), vs, conds)
	}
	out := &Val{Typ: rt}
	for k := 0; k < sig.Results().Len(); k++ {
		var vs []*Val
		for _, r := range rets {
			vs = append(vs, r.res[k])
		}
		out.Fs = append(out.Fs, fr.joinVals(fmt.Sprintf("ret%d_%s", k, callee.Name()), sig.Results().At(k).Type(), vs, conds))
	}
	return out
}

// ---------- contracts at call sites ----------

// BoundContract is a contract resolved against a function or interface method.
type BoundContract struct {
	C       *Contract
	Func    *types.Func
	Recv    string
	Params  []string
	Results []string
	Pkg     *types.Package
	Full    string
	Anon    *ssa.Function // set when the contract is on a function literal ("Outer$1")
}

// sig is the signature the contract is written over.
func (bc *BoundContract) sig() *types.Signature {
	if bc.Anon != nil {
		return bc.Anon.Signature
	}
	return bc.Func.Type().(*types.Signature)
}

func (bc *BoundContract) bindParams(env *Env, recv *Val, args []*Val, fn *ssa.Function) {
	sig := bc.sig()
	k := 0
	if sig.Recv() != nil {
		if recv != nil {
			env.vars[bc.Recv] = withType(recv, sig.Recv().Type())
		} else if len(args) > 0 {
			env.vars[bc.Recv] = withType(args[0], sig.Recv().Type())
			k = 1
		}
	}
	for i, n := range bc.Params {
		if k+i < len(args) {
			env.vars[n] = withType(args[k+i], sig.Params().At(i).Type())
		}
	}
	for _, cl := range bc.C.Clauses {
		if cl.Kind == "let" {
			env.lets[cl.Name] = cl.Expr
		}
	}
}

func withType(v *Val, t types.Type) *Val {
	if v == nil {
		return nil
	}
	n := *v
	if t == nil {
		return &n
	}
	// keep a more specific static interface type of the value (e.g. DeviceRequester passed as Requester)
	if n.Typ != nil && types.IsInterface(n.Typ) && types.IsInterface(t) && types.AssignableTo(n.Typ, t) {
		return &n
	}
	n.Typ = t
	return &n
}

func (bc *BoundContract) bindResults(env *Env, res *Val) {
	sig := bc.sig()
	n := sig.Results().Len()
	var rs []*Val
	switch n {
	case 0:
	case 1:
		rs = []*Val{res}
	default:
		rs = res.Fs
	}
	for i, r := range rs {
		env.vars[bc.Results[i]] = withType(r, sig.Results().At(i).Type())
		if n == 1 {
			env.vars["result"] = env.vars[bc.Results[i]]
		}
		env.vars[fmt.Sprintf("result%d", i)] = env.vars[bc.Results[i]]
		if i == 0 && n == 2 && sig.Results().At(1).Type().String() == "error" {
			env.vars["result"] = env.vars[bc.Results[i]]
		}
	}
	if n > 0 {
		last := sig.Results().At(n - 1)
		if last.Type().String() == "error" {
			isParam := false
			for _, pn := range bc.Params {
				if pn == "err" {
					isParam = true
				}
			}
			if !isParam {
				env.vars["err"] = env.vars[bc.Results[n-1]]
			}
		}
	}
}

func (fr *Frame) applyContract(instr ssa.Instruction, bc *BoundContract, sig *types.Signature, recv *Val, args []*Val, st *State, reach *Term, site string) *Val {
	c := fr.c
	rt := resultType(sig)
	env := newEnv(c, bc.Pkg)
	pre := st.clone()
	env.st = pre
	env.old = pre
	bc.bindParams(env, recv, args, nil)
	if bc.C.Trusted || bc.C.IsIface || strings.HasSuffix(bc.C.File, ".spec") {
		c.trusted[bc.Full] = true
	} else {
		if c.applied == nil {
			c.applied = map[string]bool{}
		}
		c.applied[bc.Full] = true
		for _, cl := range bc.C.Clauses {
			if cl.Kind == "assume" {
				c.trusted[bc.Full+" [assume clauses]"] = true
				break
			}
		}
	}
	// preconditions
	for _, cl := range bc.C.Clauses {
		if cl.Kind != "requires" {
			continue
		}
		g, err := env.evalBool(cl.Expr)
		if err != nil {
			fr.unsupported(instr.Pos(), "requires of %s: %v", bc.Full, err)
			continue
		}
		c.addObl(fr, &Obligation{Label: cl.Label, Pending: cl.Pending, Kind: "pre", Site: site, Clause: cl.Text + "  (precondition of " + shortName(bc.Full) + ")", Pos: cl.Pos, Guard: reach, Goal: g})
	}
	// effects
	for _, cl := range bc.C.Clauses {
		switch cl.Kind {
		case "modifies":
			for _, x := range cl.Exprs {
				if err := fr.havocLoc(env, x, st, reach); err != nil {
					fr.unsupported(instr.Pos(), "modifies of %s: %v", bc.Full, err)
				}
			}
		}
	}
	// protects G: objects marked in G before the call keep their contents, whatever the modifies clauses allow
	for _, cl := range bc.C.Clauses {
		if cl.Kind != "protects" {
			continue
		}
		ks := make([]string, 0, len(st.h))
		for k := range st.h {
			ks = append(ks, k)
		}
		pc, _, err := c.protectCond(cl, st, pre, c.clk(pre), ks)
		if err != nil {
			fr.unsupported(instr.Pos(), "protects of %s: %v", bc.Full, err)
		} else if pc != nil {
			c.sc.assert(tImp(reach, pc))
		}
	}
	// results
	var res *Val
	if bc.C.Pure {
		var all []*Val
		if recv != nil {
			all = append(all, recv)
		}
		all = append(all, args...)
		v, err := c.pureFuncApp(bc.Func, sig, all)
		if err != nil {
			fr.unsupported(instr.Pos(), "pure call %s: %v", bc.Full, err)
			res = c.freshVal("res_"+shortName(bc.Full), rt)
		} else {
			res = v
			if res.T != nil && len(res.T.S) > 60 {
				n := c.sc.freshConst("res_"+shortName(bc.Full), res.T.Sort)
				c.sc.assert(tEq(n, res.T))
				res = &Val{T: n, Typ: res.Typ}
			}
		}
	} else {
		res = c.freshVal("res_"+shortName(bc.Full), rt)
		c.tick(st, reach)
	}
	for _, l := range leavesOf(rt) {
		if lv := res.at(l.path); lv.T != nil && lv.T.Sort == SV {
			c.assumeExisting(st, lv.T, reach)
		}
	}
	// ghost assignments: the value is read in the state before the call (results are visible)
	{
		senv := env.child()
		senv.st = pre
		senv.old = pre
		bc.bindResults(senv, res)
		for _, cl := range bc.C.Clauses {
			if cl.Kind == "sets" {
				v, err := senv.eval(cl.Exprs[1])
				if err == nil {
					tenv := *senv
					tenv.st = st
					err = c.assign(&tenv, cl.Exprs[0], v, st)
				}
				if err != nil {
					fr.unsupported(instr.Pos(), "sets of %s: %v", bc.Full, err)
				}
			}
		}
	}
	post := env.child()
	post.st = st
	post.old = pre
	bc.bindResults(post, res)
	for _, cl := range bc.C.Clauses {
		if cl.Kind != "ensures" && cl.Kind != "assume" {
			continue
		}
		g, err := post.evalBool(cl.Expr)
		if err != nil {
			fr.unsupported(instr.Pos(), "ensures of %s: %v", bc.Full, err)
			continue
		}
		c.sc.assert(tImp(reach, g))
	}
	return res
}

// havocLoc forgets a location named in a modifies clause.
func (fr *Frame) havocLoc(env *Env, x Expr, st *State, reach *Term) error {
	c := fr.c
	if id, ok := x.(*EIdent); ok {
		if id.Name == "anyheap" {
			// any object may change; ghost state only as listed
			c.havocAll(st, reach, func(k string) bool { return strings.HasPrefix(k, "G:") })
			c.V.assumeGlobalAxioms(c, st, reach)
			return nil
		}
		if id.Name == "everything" {
			c.havocAll(st, reach, nil)
			c.V.assumeGlobalAxioms(c, st, reach)
			return nil
		}
		if g, ok := c.V.ghosts[id.Name]; ok {
			s, err := ghostSort(g.Type)
			if err != nil {
				return err
			}
			c.key("G:"+id.Name, s)
			c.havoc(st, "G:"+id.Name)
			return nil
		}
	}
	// effects(f): whatever the function value f may modify - the modifies/sets of its contract when f is a function
	// literal of the calling function that has one, otherwise everything
	if call, ok := x.(*ECall); ok {
		if id, ok := call.Fun.(*EIdent); ok && id.Name == "effects" && len(call.Args) == 1 {
			fv, err := env.eval(call.Args[0])
			if err != nil {
				return err
			}
			cenv, cbc := fr.closureEnv(fv, st)
			if cenv == nil || cbc.C.Trusted {
				c.havocAll(st, reach, nil)
				c.V.assumeGlobalAxioms(c, st, reach)
				return nil
			}
			for _, cl := range cbc.C.Clauses {
				var xs []Expr
				switch cl.Kind {
				case "modifies":
					xs = cl.Exprs
				case "sets":
					root := cl.Exprs[0]
					for {
						if ix, ok := root.(*EIndex); ok {
							root = ix.X
							continue
						}
						break
					}
					xs = []Expr{root}
				}
				for _, t := range xs {
					if err := fr.havocLoc(cenv, t, st, reach); err != nil {
						c.havocAll(st, reach, nil)
						c.V.assumeGlobalAxioms(c, st, reach)
						return nil
					}
				}
			}
			// the literal may also allocate
			c.tick(st, reach)
			return nil
		}
	}
	// fields(p): every field of the struct p points to;  deref(p): the cell p points to
	if call, ok := x.(*ECall); ok {
		if id, ok := call.Fun.(*EIdent); ok && (id.Name == "fields" || id.Name == "deref" || id.Name == "cell") && len(call.Args) == 1 {
			ne := *env
			ne.st = st
			targets := map[string][]*Term{}
			c.frameTargets(&ne, x, targets)
			ks := make([]string, 0, len(targets))
			for k := range targets {
				ks = append(ks, k)
			}
			sort.Strings(ks)
			for _, k := range ks {
				srt := c.keys[k].sort
				_, el, _ := arrParts(srt)
				for _, o := range targets[k] {
					c.set(st, k, tStore(c.get(st, k, srt), o, c.sc.freshConst("mod_f", el)))
				}
			}
			return nil
		}
	}
	// mapof(m): the contents (keys and values) of the map object m
	if call, ok := x.(*ECall); ok {
		if id, ok := call.Fun.(*EIdent); ok && id.Name == "mapof" && len(call.Args) == 1 {
			m, err := env.eval(call.Args[0])
			if err != nil {
				return err
			}
			mi, err := c.mapInfo(m.Typ)
			if err != nil {
				return err
			}
			d := c.get(st, mi.dom, mi.domSort)
			_, inner, _ := arrParts(mi.domSort)
			c.set(st, mi.dom, tStore(d, m.T, c.sc.freshConst("mod_dom", inner)))
			vt := m.Typ.Underlying().(*types.Map).Elem()
			for _, l := range leavesOf(vt) {
				key, ks := c.mapValKey(m.Typ, l)
				cur := c.get(st, key, ks)
				_, in2, _ := arrParts(ks)
				c.set(st, key, tStore(cur, m.T, c.sc.freshConst("mod_val", in2)))
			}
			return nil
		}
	}
	// x.M() pure method: havoc that abstract field at x only;  T.M: whole abstract field
	if call, ok := x.(*ECall); ok {
		if sel, ok := call.Fun.(*ESel); ok {
			recv, err := env.eval(sel.X)
			if err != nil {
				return err
			}
			obj, _, _ := types.LookupFieldOrMethod(recv.Typ, true, env.pkg, sel.Name)
			m, ok := obj.(*types.Func)
			if !ok {
				return fmt.Errorf("modifies: no method %s", sel.Name)
			}
			key, srt, err := c.afKey(m)
			if err != nil {
				return err
			}
			cur := c.get(st, key, srt)
			_, el, _ := arrParts(srt)
			fresh := c.sc.freshConst("mod_"+m.Name(), el)
			c.set(st, key, tStore(cur, recv.T, fresh))
			c.bridgedWrite(st, m, recv.T, nil)
			return nil
		}
	}
	if sel, ok := x.(*ESel); ok {
		// p.f : concrete field of object p
		recv, err := env.eval(sel.X)
		if err != nil {
			return err
		}
		if recv.T != nil && recv.Typ != nil {
			ne := *env
			ne.st = st
			targets := map[string][]*Term{}
			c.frameTargets(&ne, x, targets)
			if len(targets) > 0 {
				ks := make([]string, 0, len(targets))
				for k := range targets {
					ks = append(ks, k)
				}
				sort.Strings(ks)
				for _, k := range ks {
					srt := c.keys[k].sort
					_, el, _ := arrParts(srt)
					for _, o := range targets[k] {
						c.set(st, k, tStore(c.get(st, k, srt), o, c.sc.freshConst("mod_f", el)))
					}
				}
				return nil
			}
		}
	}
	return fmt.Errorf("unsupported modifies target")
}

// applySet performs `sets target = value`.
func (fr *Frame) applySet(env *Env, target, value Expr, st *State, reach *Term) error {
	c := fr.c
	v, err := env.eval(value)
	if err != nil {
		return err
	}
	return c.assign(env, target, v, st)
}

func (c *Ctx) assign(env *Env, target Expr, v *Val, st *State) error {
	switch t := target.(type) {
	case *EIdent:
		if g, ok := c.V.ghosts[t.Name]; ok {
			s, err := ghostSort(g.Type)
			if err != nil {
				return err
			}
			c.key("G:"+t.Name, s)
			c.set(st, "G:"+t.Name, c.coerce(v.T, s))
			return nil
		}
	case *EIndex:
		// ghost[k] = v  (possibly nested)
		base, err := env.eval(t.X)
		if err != nil {
			return err
		}
		idx, err := env.eval(t.I)
		if err != nil {
			return err
		}
		if base.T == nil {
			return fmt.Errorf("sets: composite base")
		}
		if _, _, ok := arrParts(base.T.Sort); !ok {
			return fmt.Errorf("sets: indexed target is not a ghost map")
		}
		nv := &Val{T: tStore(base.T, idx.T, v.T)}
		return c.assign(env, t.X, nv, st)
	case *ECall:
		if sel, ok := t.Fun.(*ESel); ok {
			recv, err := env.eval(sel.X)
			if err != nil {
				return err
			}
			obj, _, _ := types.LookupFieldOrMethod(recv.Typ, true, env.pkg, sel.Name)
			m, ok := obj.(*types.Func)
			if !ok {
				return fmt.Errorf("sets: no method %s on %s", sel.Name, recv.Typ)
			}
			args, err := env.evalArgs(t.Args)
			if err != nil {
				return err
			}
			key, srt, err := c.afKey(m)
			if err != nil {
				return err
			}
			cur := c.get(st, key, srt)
			// nested store
			idxs := []*Term{recv.T}
			for _, a := range afArgs(m, args) {
				idxs = append(idxs, a.T)
			}
			c.set(st, key, nestedStore(cur, idxs, v.T))
			if len(args) == 0 {
				c.bridgedWrite(st, m, recv.T, v.T)
			}
			return nil
		}
	case *ESel:
		recv, err := env.eval(t.X)
		if err != nil {
			return err
		}
		if p, ok := recv.Typ.Underlying().(*types.Pointer); ok {
			if stt, ok := p.Elem().Underlying().(*types.Struct); ok {
				for i := 0; i < stt.NumFields(); i++ {
					if stt.Field(i).Name() == t.Name {
						c.storeField(st, recv.T, p.Elem(), stt.Field(i), v)
						return nil
					}
				}
			}
		}
	}
	return fmt.Errorf("unsupported assignment target")
}

func nestedStore(arr *Term, idxs []*Term, v *Term) *Term {
	if len(idxs) == 1 {
		return tStore(arr, idxs[0], v)
	}
	return tStore(arr, idxs[0], nestedStore(tSelect(arr, idxs[0]), idxs[1:], v))
}

// ---------- pure functions, pure methods, function values ----------

func (c *Ctx) pureFuncApp(f *types.Func, sig *types.Signature, args []*Val) (*Val, error) {
	if sig == nil {
		sig = f.Type().(*types.Signature)
	}
	c.pureAxiom(f)
	rt := resultType(sig)
	name := smtName("pf_" + f.FullName())
	var sorts []Sort
	var ts []*Term
	for _, a := range args {
		if a.T == nil {
			// explode composites
			for _, l := range leavesOf(a.Typ) {
				sorts = append(sorts, l.sort)
				ts = append(ts, a.at(l.path).T)
			}
			continue
		}
		sorts = append(sorts, a.T.Sort)
		ts = append(ts, a.T)
	}
	var sig2 []string
	for _, s := range sorts {
		sig2 = append(sig2, sortName(s))
	}
	v := buildVal(rt, func(l leaf) *Term {
		fn := name + l.name
		if l.name != "" {
			fn = smtName("pf_" + f.FullName() + l.name)
		}
		// the same Go function applied with another arity (variadics) gets its own symbol
		key := "pfsig:" + fn
		want := strings.Join(sig2, ",") + "->" + string(l.sort)
		if have, ok := c.pfSigs[key]; ok && have != want {
			fn = smtName(strings.Trim(fn, "|") + "~" + strings.Join(sig2, "_"))
		} else {
			c.pfSigs[key] = want
		}
		c.sc.declareFun(fn, sorts, l.sort)
		return tApp(l.sort, fn, ts...)
	})
	return v, nil
}

// afKey returns the heap key and sort of the abstract field behind a pure method.
func (c *Ctx) afKey(m *types.Func) (string, Sort, error) {
	sig := m.Type().(*types.Signature)
	if sig.Results().Len() != 1 {
		return "", "", fmt.Errorf("pure method %s must have one result", m.FullName())
	}
	rs, ok := sortOf(sig.Results().At(0).Type())
	if !ok {
		return "", "", fmt.Errorf("pure method %s returns a composite", m.FullName())
	}
	srt := rs
	for i := sig.Params().Len() - 1; i >= 0; i-- {
		if isContextType(sig.Params().At(i).Type()) {
			continue // abstract fields do not depend on the request context (standing assumption)
		}
		ps, ok := sortOf(sig.Params().At(i).Type())
		if !ok {
			return "", "", fmt.Errorf("pure method %s takes a composite", m.FullName())
		}
		srt = ArrSort(ps, srt)
	}
	srt = ArrSort(SV, srt)
	return "AF:" + c.V.canonMethod(m), srt, nil
}

func (c *Ctx) pureMethodApp(st *State, m *types.Func, recv *Val, args []*Val) (*Val, error) {
	key, srt, err := c.afKey(m)
	if err != nil {
		return nil, err
	}
	if recv.T == nil {
		return nil, fmt.Errorf("pure method on composite receiver")
	}
	t := tSelect(c.get(st, key, srt), recv.T)
	args = afArgs(m, args)
	for _, a := range args {
		if a.T == nil {
			return nil, fmt.Errorf("pure method with composite argument")
		}
		t = tSelect(t, a.T)
	}
	if len(args) == 0 && m.Type().(*types.Signature).Params().Len() == 0 {
		t = c.bridgedRead(st, m, recv.T, t)
	}
	sig := m.Type().(*types.Signature)
	return &Val{T: t, Typ: sig.Results().At(0).Type()}, nil
}

func (c *Ctx) applyFuncValue(f *Val, args []*Val, sig *types.Signature) (*Val, error) {
	if f == nil || f.T == nil {
		return nil, fmt.Errorf("unknown function value")
	}
	rt := resultType(sig)
	sorts := []Sort{SV}
	ts := []*Term{f.T}
	for _, a := range args {
		if a.T == nil {
			return nil, fmt.Errorf("function value applied to composite")
		}
		sorts = append(sorts, a.T.Sort)
		ts = append(ts, a.T)
	}
	var sn []string
	for _, s := range sorts[1:] {
		sn = append(sn, sortName(s))
	}
	v := buildVal(rt, func(l leaf) *Term {
		fn := smtName(fmt.Sprintf("apply_%s_to_%s%s", strings.Join(sn, "_"), sortName(l.sort), l.name))
		c.sc.declareFun(fn, sorts, l.sort)
		return tApp(l.sort, fn, ts...)
	})
	return v, nil
}

// ---------- builtins ----------

func (fr *Frame) execBuiltin(instr ssa.Instruction, b *ssa.Builtin, call *ssa.CallCommon, args []*Val, st *State, reach *Term, rt types.Type) *Val {
	c := fr.c
	switch b.Name() {
	case "len", "cap":
		a := args[0]
		switch a.T.Sort {
		case SStr:
			return scalar(tApp(SInt, "len_s", a.T), rt)
		case SSl:
			if b.Name() == "cap" {
				c.sc.declareFun("scap", []Sort{SSl}, SInt)
				c.sc.axiomOnce("(forall ((s Sl)) (! (>= (scap s) (slen s)) :pattern ((scap s))))")
				return scalar(tApp(SInt, "scap", a.T), rt)
			}
			return scalar(tApp(SInt, "slen", a.T), rt)
		case SV:
			// map
			mi, err := c.mapInfo(call.Args[0].Type())
			if err == nil {
				_, inner, _ := arrParts(mi.domSort)
				fn := "card_" + sortName(inner)
				c.sc.declareFun(fn, []Sort{inner}, SInt)
				c.sc.axiomOnce(fmt.Sprintf("(forall ((d %s)) (! (>= (%s d) 0) :pattern ((%s d))))", inner, fn, fn))
				c.sc.axiomOnce(fmt.Sprintf("(= (%s ((as const %s) false)) 0)", fn, inner))
				c.sc.axiomOnce(fmt.Sprintf("(forall ((d %s) (k %s)) (! (=> (select d k) (> (%s d) 0)) :pattern ((select d k) (%s d))))", inner, mi.ksort, fn, fn))
				d := tSelect(c.get(st, mi.dom, mi.domSort), a.T)
				return scalar(tIte(tEq(a.T, tNull), intLit(0), tApp(SInt, fn, d)), rt)
			}
		}
		fr.unsupported(instr.Pos(), "len of %s", call.Args[0].Type())
		return c.freshVal("len", rt)
	case "append":
		s, t := args[0], args[1]
		et := elemType(call.Args[0].Type())
		n := c.sc.freshConst(fr.fn.Name()+"_app", SSl)
		if t.T.Sort == SStr { // append([]byte, string...)
			c.sc.declareFun("s2b", []Sort{SStr}, SSl)
			t = scalar(tApp(SSl, "s2b", t.T), nil)
		}
		c.sc.assert(tImp(reach, tEq(tApp(SInt, "slen", n), mk(SInt, "(+ (slen %s) (slen %s))", s.T.S, t.T.S))))
		if es, ok := sortOf(et); ok {
			at := atFun(c, es)
			c.sc.assert(tImp(reach, mk(SBool, "(forall ((i Int)) (! (=> (and (<= 0 i) (< i (slen %s))) (= (%s %s i) (%s %s i))) :pattern ((%s %s i))))", s.T.S, at, n.S, at, s.T.S, at, n.S)))
			c.sc.assert(tImp(reach, mk(SBool, "(forall ((i Int)) (! (=> (and (<= 0 i) (< i (slen %s))) (= (%s %s (+ (slen %s) i)) (%s %s i))) :pattern ((%s %s i))))", t.T.S, at, n.S, s.T.S, at, t.T.S, at, t.T.S)))
			// direct instances for short literal tails help the solvers
			c.sc.assert(tImp(reach, mk(SBool, "(forall ((i Int)) (! (=> (and (<= (slen %s) i) (< i (slen %s))) (= (%s %s i) (%s %s (- i (slen %s))))) :pattern ((%s %s i))))", s.T.S, n.S, at, n.S, at, t.T.S, s.T.S, at, n.S)))
		}
		return scalar(n, rt)
	case "copy":
		// copy(dst, src) where dst is the full slice of a local array: the array's contents become a function of src
		if d := args[0]; d.ArrRef != nil && d.ArrT != nil && args[1].T != nil {
			src := args[1].T
			if src.Sort == SStr {
				src = fr.convert(instr, args[1], types.Typ[types.String], types.NewSlice(types.Typ[types.Byte])).T
			}
			if src.Sort == SSl {
				a := d.ArrT.Underlying().(*types.Array)
				k, ks, es := c.arrKey(d.ArrT)
				cur := c.get(st, k, ks)
				c.set(st, k, tStore(cur, d.ArrRef, c.copyInto(tSelect(cur, d.ArrRef), src, a.Len(), es)))
				n := intLit(a.Len())
				return scalar(tIte(mk(SBool, "(< (slen %s) %s)", src.S, n.S), tApp(SInt, "slen", src), n), rt)
			}
		}
		fr.unsupported(instr.Pos(), "copy()")
		return c.freshVal("copy", rt)
	case "delete":
		fr.guardCheck(instr, args[0], true, st, reach)
		if err := c.mapDelete(st, args[0].T, call.Args[0].Type(), args[1].T); err != nil {
			fr.unsupported(instr.Pos(), "delete: %v", err)
		}
		return &Val{Typ: rt}
	case "print", "println":
		return &Val{Typ: rt}
	case "min", "max":
		op := "<="
		if b.Name() == "max" {
			op = ">="
		}
		cur := args[0].T
		for _, a := range args[1:] {
			cur = tIte(mk(SBool, "(%s %s %s)", op, cur.S, a.T.S), cur, a.T)
		}
		return scalar(cur, rt)
	case "ssa:wrapnilchk":
		return args[0]
	}
	fr.unsupported(instr.Pos(), "builtin %s", b.Name())
	return c.freshVal("builtin", rt)
}

func sortedKeys(m map[string]bool) []string {
	var out []string
	for k := range m {
		out = append(out, k)
	}
	sort.Strings(out)
	return out
}

// dispatchClosures executes a call of a function value that is one of the given closures (by identity);
// if it is none of them, nothing is known after the call.
func (fr *Frame) dispatchClosures(instr ssa.Instruction, cands []*Val, fnv *Val, args []*Val, st *State, reach *Term, rt types.Type) *Val {
	c := fr.c
	sig := cands[0].Clo.Fn.Signature
	// the value of the call as an uninterpreted application (what call(f, args...) means in contracts)
	ap, aperr := c.applyFuncValue(fnv, args, sig)
	var states []*State
	var conds []*Term
	var results []*Val
	var none []*Term
	for _, cv := range cands {
		cond := tEq(fnv.T, cv.T)
		g := c.sc.freshConst("isclo", SBool)
		c.sc.assert(tEq(g, tAnd(reach, cond)))
		s2 := st.clone()
		r := fr.callStatic(instr, cv.Clo.Fn, cv.Clo.Bind, cv.Clo.Fn.Signature, args, s2, g, rt)
		if aperr == nil && r != nil {
			for _, l := range leavesOf(rt) {
				if rl, al := r.at(l.path), ap.at(l.path); rl.T != nil && al.T != nil && rl.T.Sort == al.T.Sort {
					c.sc.assert(tImp(g, tEq(al.T, rl.T)))
				}
			}
		}
		states = append(states, s2)
		conds = append(conds, g)
		results = append(results, r)
		none = append(none, tNot(cond))
	}
	// residual: a function value from elsewhere - pure, total, uninterpreted (standing assumption on function values)
	rg := c.sc.freshConst("isclo_none", SBool)
	c.sc.assert(tEq(rg, tAnd(append([]*Term{reach}, none...)...)))
	s3 := st.clone()
	var rres *Val
	if aperr == nil {
		rres = ap
	} else {
		c.havocAll(s3, rg, nil)
		c.V.assumeGlobalAxioms(c, s3, rg)
		rres = c.freshVal("dyncall", rt)
	}
	states = append(states, s3)
	conds = append(conds, rg)
	results = append(results, rres)
	merged := c.merge("dispatch", states, conds)
	st.h = merged.h
	if len(leavesOf(rt)) == 0 {
		return &Val{Typ: rt}
	}
	return fr.joinVals("dispatch", rt, results, conds)
}

// pureAxiom states the postconditions of a pure function as a quantified fact about its uninterpreted symbol
// (once per function and context), so that applications inside contracts - also under quantifiers - know them.
// Only heap-independent postconditions over scalar parameters are stated; the postconditions themselves are
// verified on the function (or trusted, for library specs).
func (c *Ctx) pureAxiom(f *types.Func) {
	if c.pureAxDone == nil {
		c.pureAxDone = map[string]bool{}
	}
	full := f.FullName()
	if c.pureAxDone[full] {
		return
	}
	c.pureAxDone[full] = true
	bc := c.V.contractFor(full)
	if bc == nil || !bc.C.Pure || bc.Anon != nil || c.entry == nil {
		return
	}
	hasEns := false
	for _, cl := range bc.C.Clauses {
		if cl.Kind == "ensures" {
			hasEns = true
		}
	}
	if !hasEns {
		return
	}
	sig := f.Type().(*types.Signature)
	var qs []*Val
	var binders []string
	mkq := func(name string, t types.Type) bool {
		s, ok := sortOf(t)
		if !ok {
			return false
		}
		if _, isArr := t.Underlying().(*types.Array); isArr {
			return false
		}
		c.sc.fresh["q_"+name]++
		n := fmt.Sprintf("q_%s!%d", name, c.sc.fresh["q_"+name])
		qs = append(qs, &Val{T: &Term{n, s}, Typ: t})
		binders = append(binders, fmt.Sprintf("(%s %s)", n, s))
		return true
	}
	if sig.Recv() != nil {
		if !mkq("recv", sig.Recv().Type()) {
			return
		}
	}
	for i := 0; i < sig.Params().Len(); i++ {
		if !mkq(fmt.Sprintf("a%d", i), sig.Params().At(i).Type()) {
			return
		}
	}
	if len(qs) == 0 {
		return
	}
	res, err := c.pureFuncApp(f, sig, qs)
	if err != nil || res.T == nil {
		return
	}
	env := newEnv(c, bc.Pkg)
	env.st = c.entry
	env.old = c.entry
	env.isBinder = true
	bc.bindParams(env, nil, qs, nil)
	bc.bindResults(env, res)
	heapy := func(t *Term) bool {
		return strings.Contains(t.S, "H0_") || strings.Contains(t.S, "H_") || strings.Contains(t.S, "Hv_") || strings.Contains(t.S, "J_")
	}
	nUnsup := len(c.unsup)
	var req, ens []*Term
	for _, cl := range bc.C.Clauses {
		switch cl.Kind {
		case "requires":
			t, err := env.evalBool(cl.Expr)
			if err != nil || heapy(t) {
				c.unsup = c.unsup[:nUnsup]
				return
			}
			req = append(req, t)
		case "ensures":
			t, err := env.evalBool(cl.Expr)
			if err != nil || heapy(t) {
				continue
			}
			ens = append(ens, t)
		}
	}
	c.unsup = c.unsup[:nUnsup]
	if len(ens) == 0 {
		return
	}
	body := tImp(tAnd(req...), tAnd(ens...))
	c.sc.gaxioms = append(c.sc.gaxioms, fmt.Sprintf("(forall (%s) (! %s :pattern (%s)))", strings.Join(binders, " "), body.S, res.T.S))
}

// closureEnv builds the environment of the contract of the function literal held by fv (a value of the calling
// function): captured variables are the caller's, parameters are arbitrary. Nil if fv is not such a literal.
func (fr *Frame) closureEnv(fv *Val, st *State) (*Env, *BoundContract) {
	c := fr.c
	if fv == nil || fv.Clo == nil || fv.Clo.Fn == nil {
		return nil, nil
	}
	cbc := c.V.contractForFn(fv.Clo.Fn)
	if cbc == nil || cbc.Anon == nil {
		return nil, nil
	}
	fn := fv.Clo.Fn
	cenv := newEnv(c, cbc.Pkg)
	cenv.st = st
	cenv.old = nil
	var ps []*Val
	for _, p := range fn.Params {
		pv := c.freshVal("cb_"+p.Name(), p.Type())
		for _, l := range leavesOf(p.Type()) {
			if lv := pv.at(l.path); lv.T != nil && lv.T.Sort == SV {
				c.assumeExisting(st, lv.T, tTrue)
			}
		}
		ps = append(ps, pv)
	}
	cbc.bindParams(cenv, nil, ps, nil)
	cenv.free = map[string]*Val{}
	for i, v := range fn.FreeVars {
		if i < len(fv.Clo.Bind) {
			cenv.free[v.Name()] = fv.Clo.Bind[i]
		}
	}
	return cenv, cbc
}

func isContextType(t types.Type) bool {
	n, ok := t.(*types.Named)
	return ok && n.Obj().Pkg() != nil && n.Obj().Pkg().Path() == "context" && n.Obj().Name() == "Context"
}

// afArgs drops context.Context arguments: abstract fields are indexed by the receiver and the other arguments.
func afArgs(m *types.Func, args []*Val) []*Val {
	sig := m.Type().(*types.Signature)
	if len(args) != sig.Params().Len() {
		return args
	}
	var out []*Val
	for i, a := range args {
		if isContextType(sig.Params().At(i).Type()) {
			continue
		}
		out = append(out, a)
	}
	return out
}
