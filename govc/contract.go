package main

import (
	"fmt"
	"os"
	"regexp"
	"strconv"
	"strings"
	"unicode"
)

// ---------- contract file model ----------

type Clause struct {
	Kind    string // requires | ensures | invariant | assert | let | modifies | sets | assume
	Label   string // Cnn.name ("" if none)
	Pending bool   // label written as [~Cnn.name]: generated, reported, not claimed
	Loop    int    // invariant: loop ordinal (1-based)
	Callee  string // assert @call(callee)#n
	CallN   int
	Name    string // let name
	Expr    Expr
	Exprs   []Expr // modifies: locations;  sets: [target, value]
	Text    string
	Pos     string
}

type Contract struct {
	Target  string // function reference text
	IsIface bool
	Clauses []*Clause
	Pure    bool
	Inline  bool
	Trusted bool
	Bridge  bool     // "bridge": getters of concrete request/response types read their fields while this function is verified
	Params  []string // explicit parameter names (spec files)
	Pos     string
	File    string
}

type SpecFunc struct {
	Name   string
	Params []SpecParam
	Result string // type text
	Body   Expr   // nil: uninterpreted
	Opaque bool   // uninterpreted symbol plus a global definitional axiom (keeps nested quantifiers out of use sites)
	Pos    string
	Pkg    interface{} // *types.Package of the defining file
}

type SpecParam struct{ Name, Type string }

type GhostVar struct {
	Name string
	Type string // sort text: e.g. map[string]bool, int, map[string]V
	Pkg  interface{} // *types.Package the declaration was written in
	Zeroed bool      // "zeroed": an object has the zero ghost value when it is allocated
}

type Lemma struct {
	Label   string
	Pending bool
	Vars    []SpecParam
	Clauses []*Clause
	Pos     string
}

type Axiom struct {
	Name string
	Expr Expr
	Pos  string
}

type ContractFile struct {
	Path      string
	Pkg       string
	Contracts []*Contract
	Specs     []*SpecFunc
	Ghosts    []*GhostVar
	Lemmas    []*Lemma
	Axioms    []*Axiom
	PureIface []string // patterns of interface methods that are pure abstract fields
	Guards    []*GuardDecl
	Immutable []*GuardDecl // "wiring Struct : F1, F2": fields assigned only while the object is being constructed
}

// GuardDecl: fields of a struct type that may only be accessed while a mutex field of the same object is held.
type GuardDecl struct {
	Struct string
	Mutex  string
	Fields []string
	Label  string
	Pos    string
}

// ---------- expression AST ----------

type Expr interface{}

type (
	EIdent  struct{ Name string }
	EInt    struct{ V int64 }
	EStr    struct{ V string }
	EBool   struct{ V bool }
	ENil    struct{}
	EUnary  struct {
		Op string
		X  Expr
	}
	EBinary struct {
		Op   string
		L, R Expr
	}
	ESel struct {
		X    Expr
		Name string
	}
	EIndex struct{ X, I Expr }
	ESlice struct{ X, Lo, Hi Expr }
	ECall  struct {
		Fun  Expr
		Args []Expr
	}
	EQuant struct {
		Forall bool
		Vars   []SpecParam
		Body   Expr
	}
	ECond struct{ C, A, B Expr }
	EOld  struct{ X Expr }
)

// ---------- lexer ----------

type tok struct {
	kind string // id int str op eof
	text string
}

func lex(s string) ([]tok, error) {
	var out []tok
	i := 0
	for i < len(s) {
		c := s[i]
		switch {
		case c == ' ' || c == '\t' || c == '\n':
			i++
		case unicode.IsLetter(rune(c)) || c == '_' || c == '$':
			j := i + 1
			for j < len(s) && (unicode.IsLetter(rune(s[j])) || unicode.IsDigit(rune(s[j])) || s[j] == '_' || s[j] == '$' || s[j] == '#') {
				j++
			}
			out = append(out, tok{"id", s[i:j]})
			i = j
		case c >= '0' && c <= '9':
			j := i + 1
			for j < len(s) && (s[j] >= '0' && s[j] <= '9' || s[j] == '_') {
				j++
			}
			out = append(out, tok{"int", strings.ReplaceAll(s[i:j], "_", "")})
			i = j
		case c == '"':
			j := i + 1
			for j < len(s) && s[j] != '"' {
				if s[j] == '\\' {
					j++
				}
				j++
			}
			if j >= len(s) {
				return nil, fmt.Errorf("unterminated string")
			}
			v, err := strconv.Unquote(s[i : j+1])
			if err != nil {
				return nil, err
			}
			out = append(out, tok{"str", v})
			i = j + 1
		default:
			ops := []string{"<==>", "==>", "::", "==", "!=", "<=", ">=", "&&", "||", "...", "(", ")", "[", "]", "{", "}", ",", ".", "+", "-", "*", "/", "%", "<", ">", "!", "?", ":", "="}
			matched := false
			for _, op := range ops {
				if strings.HasPrefix(s[i:], op) {
					out = append(out, tok{"op", op})
					i += len(op)
					matched = true
					break
				}
			}
			if !matched {
				return nil, fmt.Errorf("bad character %q", c)
			}
		}
	}
	out = append(out, tok{"eof", ""})
	return out, nil
}

// ---------- parser ----------

type parser struct {
	toks []tok
	p    int
}

func (p *parser) peek() tok { return p.toks[p.p] }
func (p *parser) next() tok  { t := p.toks[p.p]; p.p++; return t }
func (p *parser) isOp(s string) bool {
	t := p.peek()
	return t.kind == "op" && t.text == s
}
func (p *parser) expectOp(s string) error {
	if !p.isOp(s) {
		return fmt.Errorf("expected %q, got %q", s, p.peek().text)
	}
	p.next()
	return nil
}

func parseExpr(s string) (Expr, error) {
	toks, err := lex(s)
	if err != nil {
		return nil, err
	}
	p := &parser{toks: toks}
	e, err := p.parseExpr(0)
	if err != nil {
		return nil, err
	}
	if p.peek().kind != "eof" {
		return nil, fmt.Errorf("unexpected %q after expression", p.peek().text)
	}
	return e, nil
}

var binPrec = map[string]int{
	"<==>": 1, "==>": 2, "||": 4, "&&": 5,
	"==": 6, "!=": 6, "<": 6, "<=": 6, ">": 6, ">=": 6, "in": 6,
	"+": 7, "-": 7, "*": 8, "/": 8, "%": 8,
}

func (p *parser) parseExpr(minPrec int) (Expr, error) {
	// quantifiers bind loosest
	if t := p.peek(); t.kind == "id" && (t.text == "forall" || t.text == "exists") {
		p.next()
		var vars []SpecParam
		for {
			n := p.next()
			if n.kind != "id" {
				return nil, fmt.Errorf("quantifier: expected variable name")
			}
			ty, err := p.parseTypeText()
			if err != nil {
				return nil, err
			}
			vars = append(vars, SpecParam{n.text, ty})
			if p.isOp(",") {
				p.next()
				continue
			}
			break
		}
		if err := p.expectOp("::"); err != nil {
			return nil, err
		}
		body, err := p.parseExpr(0)
		if err != nil {
			return nil, err
		}
		return &EQuant{Forall: t.text == "forall", Vars: vars, Body: body}, nil
	}
	lhs, err := p.parseUnary()
	if err != nil {
		return nil, err
	}
	for {
		t := p.peek()
		var op string
		if t.kind == "op" {
			op = t.text
		} else if t.kind == "id" && t.text == "in" {
			op = "in"
		}
		if op == "?" && minPrec <= 0 {
			p.next()
			a, err := p.parseExpr(1)
			if err != nil {
				return nil, err
			}
			if err := p.expectOp(":"); err != nil {
				return nil, err
			}
			b, err := p.parseExpr(0)
			if err != nil {
				return nil, err
			}
			lhs = &ECond{lhs, a, b}
			continue
		}
		prec, ok := binPrec[op]
		if !ok || prec < minPrec {
			return lhs, nil
		}
		p.next()
		var rhs Expr
		if op == "==>" || op == "<==>" {
			rhs, err = p.parseExpr(prec) // right assoc
		} else {
			rhs, err = p.parseExpr(prec + 1)
		}
		if err != nil {
			return nil, err
		}
		lhs = &EBinary{op, lhs, rhs}
	}
}

func (p *parser) parseTypeText() (string, error) {
	// type text: [ ] * ident . ident map[K]V
	var b strings.Builder
	for {
		t := p.peek()
		if t.kind == "op" && (t.text == "[" || t.text == "]" || t.text == "*" || t.text == ".") {
			b.WriteString(t.text)
			p.next()
			continue
		}
		if t.kind == "id" {
			b.WriteString(t.text)
			p.next()
			// continue only if followed by '.' or we are in map[...]
			n := p.peek()
			if n.kind == "op" && (n.text == "." || n.text == "[" || n.text == "]") {
				continue
			}
			// after ']' of map key comes value type: detect by unbalanced brackets
			if strings.Count(b.String(), "[") > strings.Count(b.String(), "]") {
				continue
			}
			return b.String(), nil
		}
		if b.Len() == 0 {
			return "", fmt.Errorf("expected type")
		}
		return b.String(), nil
	}
}

func (p *parser) parseUnary() (Expr, error) {
	if p.isOp("!") {
		p.next()
		x, err := p.parseUnary()
		if err != nil {
			return nil, err
		}
		return &EUnary{"!", x}, nil
	}
	if p.isOp("-") {
		p.next()
		x, err := p.parseUnary()
		if err != nil {
			return nil, err
		}
		return &EUnary{"-", x}, nil
	}
	if p.isOp("*") { // pointer type used as an argument of typeis/cast
		p.next()
		x, err := p.parseUnary()
		if err != nil {
			return nil, err
		}
		return &EUnary{"*", x}, nil
	}
	if p.isOp("[") && p.toks[p.p+1].kind == "op" && p.toks[p.p+1].text == "]" { // slice type
		p.next()
		p.next()
		x, err := p.parseUnary()
		if err != nil {
			return nil, err
		}
		return &EUnary{"[]", x}, nil
	}
	return p.parsePostfix()
}

func (p *parser) parsePostfix() (Expr, error) {
	x, err := p.parsePrimary()
	if err != nil {
		return nil, err
	}
	for {
		switch {
		case p.isOp("."):
			p.next()
			n := p.next()
			if n.kind != "id" {
				return nil, fmt.Errorf("expected name after '.'")
			}
			x = &ESel{x, n.text}
		case p.isOp("["):
			p.next()
			var lo Expr
			if !p.isOp(":") {
				lo, err = p.parseExpr(0)
				if err != nil {
					return nil, err
				}
			}
			if p.isOp(":") {
				p.next()
				var hi Expr
				if !p.isOp("]") {
					hi, err = p.parseExpr(0)
					if err != nil {
						return nil, err
					}
				}
				if err := p.expectOp("]"); err != nil {
					return nil, err
				}
				x = &ESlice{x, lo, hi}
			} else {
				if err := p.expectOp("]"); err != nil {
					return nil, err
				}
				x = &EIndex{x, lo}
			}
		case p.isOp("("):
			p.next()
			var args []Expr
			for !p.isOp(")") {
				a, err := p.parseExpr(0)
				if err != nil {
					return nil, err
				}
				args = append(args, a)
				if p.isOp(",") {
					p.next()
				} else {
					break
				}
			}
			if err := p.expectOp(")"); err != nil {
				return nil, err
			}
			if id, ok := x.(*EIdent); ok && id.Name == "old" && len(args) == 1 {
				x = &EOld{args[0]}
			} else {
				x = &ECall{x, args}
			}
		default:
			return x, nil
		}
	}
}

func (p *parser) parsePrimary() (Expr, error) {
	t := p.next()
	switch t.kind {
	case "int":
		v, err := strconv.ParseInt(t.text, 10, 64)
		if err != nil {
			return nil, err
		}
		return &EInt{v}, nil
	case "str":
		return &EStr{t.text}, nil
	case "id":
		switch t.text {
		case "true":
			return &EBool{true}, nil
		case "false":
			return &EBool{false}, nil
		case "nil":
			return &ENil{}, nil
		}
		return &EIdent{t.text}, nil
	case "op":
		if t.text == "(" {
			e, err := p.parseExpr(0)
			if err != nil {
				return nil, err
			}
			if err := p.expectOp(")"); err != nil {
				return nil, err
			}
			return e, nil
		}
	}
	return nil, fmt.Errorf("unexpected token %q", t.text)
}

// ---------- file parser ----------

var clauseKW = map[string]bool{"requires": true, "ensures": true, "invariant": true, "assert": true, "let": true,
	"modifies": true, "sets": true, "pure": true, "inline": true, "trusted": true, "bridge": true, "assume": true, "var": true, "params": true, "readonly": true, "protects": true}
var blockKW = map[string]bool{"func": true, "interface": true, "spec": true, "ghost": true, "lemma": true, "axiom": true, "pureiface": true, "guards": true, "wiring": true, "abstraction": true, "implements": true}

var labelRe = regexp.MustCompile(`^\[(~?)(C[0-9]+\.[A-Za-z0-9_\-]+)\]\s*`)

// parseContractFile reads //@ lines from a file.
func parseContractFile(path string) (*ContractFile, error) {
	data, err := os.ReadFile(path)
	if err != nil {
		return nil, err
	}
	cf := &ContractFile{Path: path}
	type line struct {
		n    int
		text string
	}
	var lines []line
	for i, l := range strings.Split(string(data), "\n") {
		t := strings.TrimSpace(l)
		if strings.HasPrefix(t, "package ") && cf.Pkg == "" {
			cf.Pkg = strings.TrimSpace(strings.TrimPrefix(t, "package "))
		}
		if !strings.HasPrefix(t, "//@") {
			continue
		}
		t = strings.TrimSpace(t[3:])
		if t == "" || strings.HasPrefix(t, "#") {
			continue
		}
		// strip trailing comment  " // ..."
		if k := strings.Index(t, " //"); k >= 0 && !strings.Contains(t[:k], "\"") {
			t = strings.TrimSpace(t[:k])
		}
		first := strings.Fields(t)[0]
		if (clauseKW[first] || blockKW[first]) || len(lines) == 0 {
			lines = append(lines, line{i + 1, t})
		} else {
			lines[len(lines)-1].text += " " + t
		}
	}
	var cur *Contract
	var curLemma *Lemma
	fail := func(n int, format string, a ...interface{}) error {
		return fmt.Errorf("%s:%d: %s", path, n, fmt.Sprintf(format, a...))
	}
	for _, ln := range lines {
		pos := fmt.Sprintf("%s:%d", path, ln.n)
		fields := strings.Fields(ln.text)
		kw := fields[0]
		rest := strings.TrimSpace(ln.text[len(kw):])
		switch kw {
		case "func", "interface":
			cur = &Contract{Target: rest, IsIface: kw == "interface", Pos: pos, File: path}
			// optional explicit params: name(a, b, c)
			if k := strings.LastIndex(rest, "("); k > 0 && strings.HasSuffix(rest, ")") && !strings.HasPrefix(rest, "(") || (strings.HasPrefix(rest, "(") && strings.Count(rest, "(") == 2 && strings.HasSuffix(rest, ")")) {
				k := strings.LastIndex(rest, "(")
				cur.Target = strings.TrimSpace(rest[:k])
				for _, pn := range strings.Split(rest[k+1:len(rest)-1], ",") {
					if pn = strings.TrimSpace(pn); pn != "" {
						cur.Params = append(cur.Params, pn)
					}
				}
			}
			curLemma = nil
			cf.Contracts = append(cf.Contracts, cur)
		case "pureiface":
			cf.PureIface = append(cf.PureIface, fields[1:]...)
		case "guards":
			// guards [Cnn.label] Struct mutexField : F1, F2
			r := rest
			g := &GuardDecl{Pos: pos}
			if m := labelRe.FindStringSubmatch(r); m != nil {
				g.Label = m[2]
				r = r[len(m[0]):]
			}
			parts := strings.SplitN(r, ":", 2)
			hd := strings.Fields(parts[0])
			if len(parts) != 2 || len(hd) != 2 {
				return nil, fail(ln.n, "guards: expected 'Struct mutexField : F1, F2'")
			}
			g.Struct, g.Mutex = hd[0], hd[1]
			for _, f := range strings.Split(parts[1], ",") {
				g.Fields = append(g.Fields, strings.TrimSpace(f))
			}
			cf.Guards = append(cf.Guards, g)
		case "wiring":
			// wiring Struct : F1, F2
			parts := strings.SplitN(rest, ":", 2)
			if len(parts) != 2 {
				return nil, fail(ln.n, "wiring: expected 'Struct : F1, F2'")
			}
			g := &GuardDecl{Pos: pos, Struct: strings.TrimSpace(parts[0])}
			for _, f := range strings.Split(parts[1], ",") {
				g.Fields = append(g.Fields, strings.TrimSpace(f))
			}
			cf.Immutable = append(cf.Immutable, g)
		case "ghost":
			// ghost name : type
			parts := strings.SplitN(rest, ":", 2)
			if len(parts) != 2 {
				return nil, fail(ln.n, "ghost: expected name : type")
			}
			gt := strings.TrimSpace(parts[1])
			zeroed := false
			if strings.HasSuffix(gt, " zeroed") {
				zeroed = true
				gt = strings.TrimSpace(strings.TrimSuffix(gt, " zeroed"))
			}
			cf.Ghosts = append(cf.Ghosts, &GhostVar{Name: strings.TrimSpace(parts[0]), Type: gt, Zeroed: zeroed})
		case "spec":
			// spec func name(a T, b T) R = expr   | spec func name(a T) R   (uninterpreted)
			r := strings.TrimSpace(strings.TrimPrefix(rest, "func"))
			opaque := false
			if strings.HasPrefix(r, "opaque ") {
				opaque = true
				r = strings.TrimSpace(r[len("opaque "):])
			}
			open := strings.Index(r, "(")
			if open < 0 {
				return nil, fail(ln.n, "spec func: expected (")
			}
			closeIdx := matchParen(r, open)
			if closeIdx < 0 {
				return nil, fail(ln.n, "spec func: unbalanced")
			}
			sf := &SpecFunc{Name: strings.TrimSpace(r[:open]), Pos: pos, Opaque: opaque}
			for _, ps := range splitTop(r[open+1:closeIdx], ',') {
				ps = strings.TrimSpace(ps)
				if ps == "" {
					continue
				}
				f := strings.Fields(ps)
				if len(f) != 2 {
					return nil, fail(ln.n, "spec func param %q", ps)
				}
				sf.Params = append(sf.Params, SpecParam{f[0], f[1]})
			}
			after := strings.TrimSpace(r[closeIdx+1:])
			if k := strings.Index(after, "="); k >= 0 && !strings.HasPrefix(after[k:], "==") {
				sf.Result = strings.TrimSpace(after[:k])
				e, err := parseExpr(after[k+1:])
				if err != nil {
					return nil, fail(ln.n, "spec func body: %v", err)
				}
				sf.Body = e
			} else {
				sf.Result = after
			}
			cf.Specs = append(cf.Specs, sf)
		case "axiom":
			name := fields[1]
			e, err := parseExpr(strings.TrimSpace(rest[len(name):]))
			if err != nil {
				return nil, fail(ln.n, "axiom: %v", err)
			}
			cf.Axioms = append(cf.Axioms, &Axiom{name, e, pos})
		case "lemma":
			m := labelRe.FindStringSubmatch(rest)
			if m == nil {
				return nil, fail(ln.n, "lemma needs a [Cnn.name] label")
			}
			curLemma = &Lemma{Label: m[2], Pending: m[1] == "~", Pos: pos}
			cur = nil
			cf.Lemmas = append(cf.Lemmas, curLemma)
		case "var":
			if curLemma == nil {
				return nil, fail(ln.n, "var outside lemma")
			}
			for _, ps := range splitTop(rest, ',') {
				f := strings.Fields(strings.TrimSpace(ps))
				if len(f) != 2 {
					return nil, fail(ln.n, "var %q", ps)
				}
				curLemma.Vars = append(curLemma.Vars, SpecParam{f[0], f[1]})
			}
		case "readonly":
			if cur == nil {
				return nil, fail(ln.n, "readonly outside func block")
			}
			cl := &Clause{Kind: "readonly", Text: ln.text, Pos: pos}
			if m := labelRe.FindStringSubmatch(rest); m != nil {
				cl.Label = m[2]
				cl.Pending = m[1] == "~"
			}
			cur.Clauses = append(cur.Clauses, cl)
		case "pure", "inline", "trusted", "bridge":
			if cur == nil {
				return nil, fail(ln.n, "%s outside func block", kw)
			}
			switch kw {
			case "pure":
				cur.Pure = true
			case "inline":
				cur.Inline = true
			case "trusted":
				cur.Trusted = true
			case "bridge":
				cur.Bridge = true
			}
		case "params":
			if cur == nil {
				return nil, fail(ln.n, "params outside func block")
			}
			for _, pn := range strings.Split(rest, ",") {
				cur.Params = append(cur.Params, strings.TrimSpace(pn))
			}
		default:
			if !clauseKW[kw] {
				return nil, fail(ln.n, "unknown keyword %q", kw)
			}
			cl := &Clause{Kind: kw, Text: ln.text, Pos: pos}
			r := rest
			if kw == "invariant" {
				m := regexp.MustCompile(`^loop#(\d+)\s*`).FindStringSubmatch(r)
				if m == nil {
					return nil, fail(ln.n, "invariant needs loop#k")
				}
				cl.Loop, _ = strconv.Atoi(m[1])
				r = r[len(m[0]):]
			}
			if kw == "assert" {
				m := regexp.MustCompile(`^@call\(([^)]*)\)#(\d+)\s*`).FindStringSubmatch(r)
				if m == nil {
					return nil, fail(ln.n, "assert needs @call(callee)#n")
				}
				cl.Callee = m[1]
				cl.CallN, _ = strconv.Atoi(m[2])
				r = r[len(m[0]):]
			}
			if m := labelRe.FindStringSubmatch(r); m != nil {
				cl.Label = m[2]
				cl.Pending = m[1] == "~"
				r = r[len(m[0]):]
			}
			switch kw {
			case "let":
				k := strings.Index(r, "=")
				if k < 0 {
					return nil, fail(ln.n, "let needs =")
				}
				cl.Name = strings.TrimSpace(r[:k])
				e, err := parseExpr(r[k+1:])
				if err != nil {
					return nil, fail(ln.n, "%v", err)
				}
				cl.Expr = e
			case "modifies":
				for _, part := range splitTop(r, ',') {
					e, err := parseExpr(part)
					if err != nil {
						return nil, fail(ln.n, "%v", err)
					}
					cl.Exprs = append(cl.Exprs, e)
				}
			case "sets":
				// sets target = value
				k := indexTopAssign(r)
				if k < 0 {
					return nil, fail(ln.n, "sets needs target = value")
				}
				t, err := parseExpr(r[:k])
				if err != nil {
					return nil, fail(ln.n, "%v", err)
				}
				v, err := parseExpr(r[k+1:])
				if err != nil {
					return nil, fail(ln.n, "%v", err)
				}
				cl.Exprs = []Expr{t, v}
			default:
				e, err := parseExpr(r)
				if err != nil {
					return nil, fail(ln.n, "%v in %q", err, r)
				}
				cl.Expr = e
			}
			if curLemma != nil {
				curLemma.Clauses = append(curLemma.Clauses, cl)
			} else if cur != nil {
				cur.Clauses = append(cur.Clauses, cl)
			} else {
				return nil, fail(ln.n, "clause outside block")
			}
		}
	}
	return cf, nil
}

func matchParen(s string, open int) int {
	d := 0
	for i := open; i < len(s); i++ {
		switch s[i] {
		case '(':
			d++
		case ')':
			d--
			if d == 0 {
				return i
			}
		}
	}
	return -1
}

func splitTop(s string, sep byte) []string {
	var out []string
	d := 0
	inStr := false
	start := 0
	for i := 0; i < len(s); i++ {
		c := s[i]
		if inStr {
			if c == '\\' {
				i++
			} else if c == '"' {
				inStr = false
			}
			continue
		}
		switch c {
		case '"':
			inStr = true
		case '(', '[':
			d++
		case ')', ']':
			d--
		default:
			if c == sep && d == 0 {
				out = append(out, s[start:i])
				start = i + 1
			}
		}
	}
	out = append(out, s[start:])
	return out
}

// indexTopAssign finds a single '=' that is not part of ==, !=, <=, >=, ==>.
func indexTopAssign(s string) int {
	d := 0
	inStr := false
	for i := 0; i < len(s); i++ {
		c := s[i]
		if inStr {
			if c == '\\' {
				i++
			} else if c == '"' {
				inStr = false
			}
			continue
		}
		switch c {
		case '"':
			inStr = true
		case '(', '[':
			d++
		case ')', ']':
			d--
		case '=':
			if d != 0 {
				continue
			}
			prev := byte(' ')
			if i > 0 {
				prev = s[i-1]
			}
			next := byte(' ')
			if i+1 < len(s) {
				next = s[i+1]
			}
			if prev == '=' || prev == '!' || prev == '<' || prev == '>' || next == '=' {
				continue
			}
			return i
		}
	}
	return -1
}
