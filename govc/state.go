package main

import (
	"fmt"
	"go/types"
	"sort"
	"strings"

	"golang.org/x/tools/go/ssa"
)

// Val is a symbolic Go value: a scalar term, or an exploded composite.
type Val struct {
	T   *Term
	Fs  []*Val // struct fields / tuple components (exploded)
	Typ types.Type
	Clo *Closure // statically known function value
	Loc *Loc     // interior pointer (address of scalar field / element)
	ArrRef *Term     // slice value created by slicing a local array: reference of that array (element access goes to its memory)
	ArrT   types.Type
	Prov *Prov     // the value was loaded from a guarded field (lock discipline)
	Boxed types.Type // static type of the value an interface value was made from (MakeInterface)
	GT  string   // ghost map type text (ghost values only)
	GPkg *types.Package
}

type Closure struct {
	Fn   *ssa.Function
	Bind []*Val
}

// Prov records that a map value was read from a mutex-guarded field of an object.
type Prov struct {
	Key  string
	Base *Term
}

// Loc is an address that is not an object reference.
type Loc struct {
	Kind string // field | slelem | arrelem | mapelem(never addressable)
	Key  string // heap key
	Base *Term  // object ref (field/arrelem) or slice value (slelem)
	Idx  *Term
	Typ  types.Type // element type
}

func scalar(t *Term, typ types.Type) *Val { return &Val{T: t, Typ: typ} }

// State maps heap keys to their current SMT term. A missing key stands for its
// entry value (constant key!0).
type State struct {
	h map[string]*Term
}

func newState() *State { return &State{h: map[string]*Term{}} }

func (s *State) clone() *State {
	n := &State{h: make(map[string]*Term, len(s.h))}
	for k, v := range s.h {
		n.h[k] = v
	}
	return n
}

// heapInfo describes a heap key.
type heapInfo struct {
	sort Sort
	init *Term
}

// Ctx is shared by the execution of one top-level function (and inlined callees).
type Ctx struct {
	V        *Verifier
	sc       *Script
	keys     map[string]*heapInfo
	obls     []*Obligation
	notes    []string
	unsup    []string // unsupported constructs met (function is then not verified)
	loopW    map[string]map[string]bool // loop id -> keys havocked at head
	loopWNew bool
	callSeq  map[string]int
	retSeq   int
	typeIDs  map[string]int
	top      *ssa.Function
	entry    *State
	covers   []*Cover
	trusted  map[string]bool // trusted/assumed contracts used
	depth    int
	pfSigs   map[string]string
	embTags  int
	nameSeen map[string]int
	pureAxDone map[string]bool
	applied  map[string]bool // contracts of verified repo functions applied at call sites (the check verifies them too)
	frameOn  bool               // heap frame of the function under verification is checked
	frameT   map[string][]*Term // heap key -> objects named by modifies/sets (entry state)
	protect  []*Clause          // protects clauses of the function under verification
	inlineStack []*ssa.Function // contract-less helpers being executed in place (recursion guard)
	bridging bool // abstract fields of concrete request/response objects read their struct fields
}

type Cover struct {
	Name  string
	Reach *Term
}

type Obligation struct {
	Name    string
	Label   string // Cnn.name or ""
	Pending bool
	Kind    string // ensures | pre | invariant-init | invariant-step | assert | frame | safety | lemma
	Site    string
	Clause  string
	Pos     string
	Guard   *Term
	Goal    *Term
	Func    string
	script  *Script
	nAssert int // number of script assertions visible to this obligation
	nDecl   int
	nAxiom  int
	nGax    int
	Where   string // source position of the site (informational)
	TimeoutMs int  // per-obligation override (known findings are expected not to discharge)
	Res     SolveResult
	GetVals []string
}

func (c *Ctx) key(k string, sort Sort) *heapInfo {
	if hi, ok := c.keys[k]; ok {
		if hi.sort != sort {
			panic(fmt.Sprintf("heap key %s used with sorts %s and %s", k, hi.sort, sort))
		}
		return hi
	}
	name := smtName("H0_" + k)
	c.sc.declareConst(name, sort)
	hi := &heapInfo{sort: sort, init: &Term{name, sort}}
	c.keys[k] = hi
	c.nilMapEmpty(k, hi.init)
	return hi
}

// nilMapEmpty: a nil map has no keys (reading it is legal in Go; writing panics and is a safety obligation), so the
// domain recorded for the null reference is empty in every heap, the initial one and each havoced one.
func (c *Ctx) nilMapEmpty(k string, t *Term) {
	if !strings.HasPrefix(k, "MD:") {
		return
	}
	if ix, inner, ok := arrParts(t.Sort); ok && ix == SV {
		c.sc.assert(mk(SBool, "(= (select %s null) ((as const %s) false))", t.S, inner))
	}
}

func (c *Ctx) get(s *State, k string, sort Sort) *Term {
	hi := c.key(k, sort)
	if t, ok := s.h[k]; ok {
		return t
	}
	return hi.init
}

// set binds key k to a fresh constant equal to t (keeps terms small).
func (c *Ctx) set(s *State, k string, t *Term) {
	hi := c.key(k, t.Sort)
	_ = hi
	if len(t.S) > 80 {
		n := c.sc.freshConst("H_"+k, t.Sort)
		c.sc.assert(tEq(n, t))
		t = n
	}
	s.h[k] = t
}

func (c *Ctx) havoc(s *State, k string) {
	hi, ok := c.keys[k]
	if !ok {
		return
	}
	s.h[k] = c.sc.freshConst("Hv_"+k, hi.sort)
	c.nilMapEmpty(k, s.h[k])
}

// havocAll forgets everything about the heap except the clock ordering.
func (c *Ctx) havocAll(s *State, guard *Term, except func(string) bool) {
	ks := make([]string, 0, len(c.keys))
	for k := range c.keys {
		ks = append(ks, k)
	}
	sort.Strings(ks)
	for _, k := range ks {
		if k == "$clk" || (except != nil && except(k)) {
			continue
		}
		if _, wired := c.V.wiring[k]; wired {
			continue // never assigned after construction (checked over the whole repository at load time)
		}
		c.havoc(s, k)
	}
	c.tick(s, guard)
}

func (c *Ctx) clk(s *State) *Term { return c.get(s, "$clk", SInt) }

// tick advances the allocation clock by an unknown positive amount.
func (c *Ctx) tick(s *State, guard *Term) {
	old := c.clk(s)
	n := c.sc.freshConst("clk", SInt)
	c.sc.assert(mk(SBool, "(> %s %s)", n.S, old.S))
	s.h["$clk"] = n
}

// merge joins states coming along edges with conditions conds.
func (c *Ctx) merge(name string, states []*State, conds []*Term) *State {
	if len(states) == 1 {
		return states[0].clone()
	}
	out := newState()
	keys := map[string]bool{}
	for _, s := range states {
		for k := range s.h {
			keys[k] = true
		}
	}
	ks := make([]string, 0, len(keys))
	for k := range keys {
		ks = append(ks, k)
	}
	sort.Strings(ks)
	for _, k := range ks {
		hi := c.keys[k]
		same := true
		var first *Term
		for i, s := range states {
			t, ok := s.h[k]
			if !ok {
				t = hi.init
			}
			if i == 0 {
				first = t
			} else if t.S != first.S {
				same = false
			}
		}
		if same {
			if first.S != hi.init.S {
				out.h[k] = first
			}
			continue
		}
		j := c.sc.freshConst("J_"+k+"@"+name, hi.sort)
		for i, s := range states {
			t, ok := s.h[k]
			if !ok {
				t = hi.init
			}
			c.sc.assert(tImp(conds[i], tEq(j, t)))
		}
		out.h[k] = j
	}
	return out
}

// ---------- sorts of Go types ----------

func isOpaqueStruct(t types.Type) bool {
	if n, ok := t.(*types.Named); ok {
		if n.Obj().Pkg() != nil {
			switch n.Obj().Pkg().Path() + "." + n.Obj().Name() {
			case "time.Time":
				return true
			}
		}
	}
	return false
}

// sortOf returns the SMT sort of a scalar Go type; ok=false for exploded composites.
func sortOf(t types.Type) (Sort, bool) {
	if isOpaqueStruct(t) {
		return SInt, true
	}
	switch u := t.Underlying().(type) {
	case *types.Basic:
		switch {
		case u.Info()&types.IsBoolean != 0:
			return SBool, true
		case u.Info()&types.IsInteger != 0:
			return SInt, true
		case u.Info()&types.IsString != 0:
			return SStr, true
		case u.Info()&types.IsFloat != 0:
			return SReal, true
		case u.Kind() == types.UntypedNil:
			return SV, true
		case u.Kind() == types.UnsafePointer:
			return SV, true
		}
		return SInt, true
	case *types.Pointer, *types.Map, *types.Chan, *types.Signature, *types.Interface:
		return SV, true
	case *types.Slice:
		return SSl, true
	case *types.Array:
		return SSl, true
	case *types.Struct, *types.Tuple:
		return "", false
	case *types.TypeParam:
		return SV, true
	}
	return SV, true
}

func sortName(s Sort) string {
	r := strings.NewReplacer("(", "", ")", "", " ", "_")
	return r.Replace(string(s))
}

func typeKey(t types.Type) string {
	return types.TypeString(t, func(p *types.Package) string { return p.Path() })
}

// structOf returns the struct underlying t (after pointer deref if ptr).
func structOf(t types.Type) (*types.Struct, bool) {
	s, ok := t.Underlying().(*types.Struct)
	return s, ok
}

func fieldKey(structType types.Type, field *types.Var) string {
	return "F:" + typeKey(structType) + "." + field.Name()
}

func isUnsigned(t types.Type) bool {
	if b, ok := t.Underlying().(*types.Basic); ok {
		return b.Info()&types.IsUnsigned != 0
	}
	return false
}
