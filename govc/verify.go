package main

import (
	"strconv"
	"fmt"
	"go/types"
	"os"
	"path"
	"path/filepath"
	"regexp"
	"sort"
	"strings"
	"sync"
	"time"

	"golang.org/x/tools/go/packages"
	"golang.org/x/tools/go/ssa"
	"golang.org/x/tools/go/ssa/ssautil"
)

const repoModule = "github.com/ory/fosite"

type Verifier struct {
	repo      string
	pkgs      []*packages.Package
	allTypes  map[string]*types.Package // by path
	byName    map[string][]*types.Package
	prog      *ssa.Program
	ssaPkgs   map[string]*ssa.Package
	files     []*ContractFile
	contracts map[string]*BoundContract // by canonical full name
	specs     map[string]*SpecFunc
	ghosts    map[string]*GhostVar
	zeroedGhosts []string
	bridges   map[string][]*afBridge
	wiring    map[string]*types.Var // heap keys of fields declared "wiring" (and found never to be assigned after construction)
	axioms    []*boundAxiom
	lemmas    []*boundLemma
	purePats  []string
	sentinels []*sentinel
	constSlices []*constSlice
	guards    map[string]*boundGuard // heap key of the guarded field -> guard
	loadNotes []string
	loadErrs  []string
	tmpdir    string
	timeoutMs int
	agree     bool
	mu        sync.Mutex
}

type boundGuard struct {
	Struct types.Type
	Mutex  *types.Var
	Label  string
}

type boundAxiom struct {
	A   *Axiom
	Pkg *types.Package
}

type boundLemma struct {
	L   *Lemma
	Pkg *types.Package
	CF  *ContractFile
}

func loadVerifier(repo string, specDir string) (*Verifier, error) {
	v := &Verifier{repo: repo, allTypes: map[string]*types.Package{}, byName: map[string][]*types.Package{}, ssaPkgs: map[string]*ssa.Package{},
		contracts: map[string]*BoundContract{}, specs: map[string]*SpecFunc{}, ghosts: map[string]*GhostVar{}}
	cfg := &packages.Config{
		Mode: packages.NeedName | packages.NeedFiles | packages.NeedCompiledGoFiles | packages.NeedImports | packages.NeedTypes |
			packages.NeedTypesSizes | packages.NeedSyntax | packages.NeedTypesInfo | packages.NeedDeps,
		Dir: repo, BuildFlags: []string{"-tags=verif"},
		Env: append(os.Environ(), "GOFLAGS=-mod=mod", "GOPROXY=off", "GOSUMDB=off", "GOTOOLCHAIN=local"),
	}
	pkgs, err := packages.Load(cfg, ".", "./handler/...", "./storage", "./token/...", "./compose")
	if err != nil {
		return nil, err
	}
	for _, p := range pkgs {
		for _, e := range p.Errors {
			v.loadErrs = append(v.loadErrs, e.Error())
		}
	}
	if len(v.loadErrs) > 0 {
		return nil, fmt.Errorf("package load errors: %s", strings.Join(v.loadErrs, "; "))
	}
	v.pkgs = pkgs
	packages.Visit(pkgs, nil, func(p *packages.Package) {
		if p.Types != nil {
			v.allTypes[p.Types.Path()] = p.Types
			v.byName[p.Types.Name()] = append(v.byName[p.Types.Name()], p.Types)
		}
	})
	prog, spkgs := ssautil.AllPackages(pkgs, ssa.GlobalDebug)
	v.prog = prog
	for _, sp := range spkgs {
		if sp != nil && strings.HasPrefix(sp.Pkg.Path(), repoModule) {
			sp.Build()
			v.ssaPkgs[sp.Pkg.Path()] = sp
		}
	}
	// contract files in the repo (comment-only, behind the verif tag)
	for _, p := range pkgs {
		for _, f := range p.CompiledGoFiles {
			if strings.HasPrefix(filepath.Base(f), "verif_contracts") {
				cf, err := parseContractFile(f)
				if err != nil {
					return nil, err
				}
				if err := v.addFile(cf, p.Types); err != nil {
					return nil, err
				}
			}
		}
	}
	v.collectSentinels()
	specs, _ := filepath.Glob(filepath.Join(specDir, "*.spec"))
	sort.Strings(specs)
	for _, f := range specs {
		cf, err := parseContractFile(f)
		if err != nil {
			return nil, err
		}
		var pkg *types.Package
		if cf.Pkg != "" {
			pkg = v.allTypes[cf.Pkg]
			if pkg == nil {
				pkg = v.findPackage(nil, cf.Pkg)
			}
		}
		if err := v.addFile(cf, pkg); err != nil {
			return nil, err
		}
	}
	v.computeBridges()
	v.checkWiring()
	return v, nil
}

func (v *Verifier) addFile(cf *ContractFile, pkg *types.Package) error {
	v.files = append(v.files, cf)
	for _, g := range cf.Ghosts {
		if _, err := ghostSort(g.Type); err != nil {
			return fmt.Errorf("%s: ghost %s: %v", cf.Path, g.Name, err)
		}
		g.Pkg = pkg
		v.ghosts[g.Name] = g
		if g.Zeroed {
			v.zeroedGhosts = append(v.zeroedGhosts, g.Name)
		}
	}
	for _, s := range cf.Specs {
		s.Pkg = pkg
		v.specs[s.Name] = s
		if s.Opaque && s.Body != nil {
			// definitional axiom: forall params :: name(params) == body
			var args []Expr
			for _, p := range s.Params {
				args = append(args, &EIdent{p.Name})
			}
			def := &EBinary{Op: "==", L: &ECall{Fun: &EIdent{s.Name}, Args: args}, R: &ECall{Fun: &EIdent{"$body:" + s.Name}, Args: args}}
			v.axioms = append(v.axioms, &boundAxiom{&Axiom{Name: "def-" + s.Name, Expr: &EQuant{Forall: true, Vars: s.Params, Body: def}, Pos: s.Pos}, pkg})
		}
	}
	for _, a := range cf.Axioms {
		v.axioms = append(v.axioms, &boundAxiom{a, pkg})
	}
	for _, l := range cf.Lemmas {
		v.lemmas = append(v.lemmas, &boundLemma{l, pkg, cf})
	}
	v.purePats = append(v.purePats, cf.PureIface...)
	for _, g := range cf.Guards {
		if pkg == nil {
			return fmt.Errorf("%s: guards needs a package", g.Pos)
		}
		obj := pkg.Scope().Lookup(g.Struct)
		if obj == nil {
			return fmt.Errorf("%s: guards: unknown struct %s", g.Pos, g.Struct)
		}
		stt, ok := obj.Type().Underlying().(*types.Struct)
		if !ok {
			return fmt.Errorf("%s: guards: %s is not a struct", g.Pos, g.Struct)
		}
		find := func(name string) *types.Var {
			for i := 0; i < stt.NumFields(); i++ {
				if stt.Field(i).Name() == name {
					return stt.Field(i)
				}
			}
			return nil
		}
		mu := find(g.Mutex)
		if mu == nil {
			return fmt.Errorf("%s: guards: no field %s in %s (detached guard)", g.Pos, g.Mutex, g.Struct)
		}
		for _, fname := range g.Fields {
			f := find(fname)
			if f == nil {
				return fmt.Errorf("%s: guards: no field %s in %s (detached guard)", g.Pos, fname, g.Struct)
			}
			if v.guards == nil {
				v.guards = map[string]*boundGuard{}
			}
			v.guards[fieldKey(obj.Type(), f)] = &boundGuard{Struct: obj.Type(), Mutex: mu, Label: g.Label}
		}
	}
	for _, g := range cf.Immutable {
		if pkg == nil {
			return fmt.Errorf("%s: wiring needs a package", g.Pos)
		}
		obj := pkg.Scope().Lookup(g.Struct)
		if obj == nil {
			return fmt.Errorf("%s: wiring: unknown struct %s", g.Pos, g.Struct)
		}
		stt, ok := obj.Type().Underlying().(*types.Struct)
		if !ok {
			return fmt.Errorf("%s: wiring: %s is not a struct", g.Pos, g.Struct)
		}
		for _, fname := range g.Fields {
			var f *types.Var
			for i := 0; i < stt.NumFields(); i++ {
				if stt.Field(i).Name() == fname {
					f = stt.Field(i)
				}
			}
			if f == nil {
				return fmt.Errorf("%s: wiring: no field %s in %s (detached declaration)", g.Pos, fname, g.Struct)
			}
			if v.wiring == nil {
				v.wiring = map[string]*types.Var{}
			}
			v.wiring[fieldKey(obj.Type(), f)] = f
		}
	}
	for _, ct := range cf.Contracts {
		bc, err := v.bind(ct, pkg)
		if err != nil {
			return fmt.Errorf("%s: %v", ct.Pos, err)
		}
		if old, dup := v.contracts[bc.Full]; dup {
			return fmt.Errorf("%s: duplicate contract for %s (also at %s)", ct.Pos, bc.Full, old.C.Pos)
		}
		v.contracts[bc.Full] = bc
	}
	return nil
}

// findPackage resolves a package by name (preferring imports of from) or path.
func (v *Verifier) findPackage(from *types.Package, name string) *types.Package {
	if p, ok := v.allTypes[name]; ok {
		return p
	}
	if from != nil {
		if from.Name() == name {
			return from
		}
		// several imports may share a package name (encoding/json and go-jose's json): the shortest path wins
		var bestImp *types.Package
		for _, imp := range from.Imports() {
			if imp.Name() == name && (bestImp == nil || len(imp.Path()) < len(bestImp.Path())) {
				bestImp = imp
			}
		}
		if bestImp != nil {
			return bestImp
		}
	}
	cands := v.byName[name]
	// prefer repo packages, then shortest path
	var best *types.Package
	for _, p := range cands {
		if best == nil {
			best = p
			continue
		}
		pr := strings.HasPrefix(p.Path(), repoModule)
		br := strings.HasPrefix(best.Path(), repoModule)
		if pr && !br || (pr == br && len(p.Path()) < len(best.Path())) {
			best = p
		}
	}
	return best
}

func (v *Verifier) namedType(pkgPath, name string) types.Type {
	p := v.allTypes[pkgPath]
	if p == nil {
		return nil
	}
	o := p.Scope().Lookup(name)
	if o == nil {
		return nil
	}
	return o.Type()
}

var anonTargetRe = regexp.MustCompile(`^(.*?)((?:\$\d+)+)$`)

var methodTargetRe = regexp.MustCompile(`^\(\s*(\*?)\s*([^)]+?)\s*\)\.(\w+)$`)

// bind resolves the target of a contract.
func (v *Verifier) bind(ct *Contract, pkg *types.Package) (*BoundContract, error) {
	target := ct.Target
	// "Outer$1" / "Outer$2$1": a function literal inside Outer, numbered as go/ssa numbers them
	anonPath := ""
	if m := anonTargetRe.FindStringSubmatch(target); m != nil && !ct.IsIface {
		target, anonPath = m[1], m[2]
	}
	var f *types.Func
	lookupType := func(tn string) (types.Type, *types.Package, error) {
		p := pkg
		name := tn
		if k := strings.LastIndex(tn, "."); k >= 0 {
			p = v.findPackage(pkg, tn[:k])
			name = tn[k+1:]
			if p == nil {
				return nil, nil, fmt.Errorf("unknown package %q in %q", tn[:k], target)
			}
		}
		if p == nil {
			return nil, nil, fmt.Errorf("contract for %q needs a package", target)
		}
		o := p.Scope().Lookup(name)
		if o == nil {
			return nil, nil, fmt.Errorf("detached contract: type %q not found in %s", name, p.Path())
		}
		tno, ok := o.(*types.TypeName)
		if !ok {
			return nil, nil, fmt.Errorf("%q is not a type", tn)
		}
		return tno.Type(), p, nil
	}
	var cpkg *types.Package
	if m := methodTargetRe.FindStringSubmatch(target); m != nil {
		t, p, err := lookupType(m[2])
		if err != nil {
			return nil, err
		}
		cpkg = p
		recvT := t
		if m[1] == "*" {
			recvT = types.NewPointer(t)
		}
		obj, _, _ := types.LookupFieldOrMethod(recvT, true, p, m[3])
		mf, ok := obj.(*types.Func)
		if !ok {
			return nil, fmt.Errorf("detached contract: method %s not found on %s", m[3], recvT)
		}
		f = mf
	} else if ct.IsIface {
		k := strings.LastIndex(target, ".")
		if k < 0 {
			return nil, fmt.Errorf("interface contract target must be Iface.Method: %q", target)
		}
		t, p, err := lookupType(target[:k])
		if err != nil {
			return nil, err
		}
		cpkg = p
		obj, _, _ := types.LookupFieldOrMethod(t, true, p, target[k+1:])
		mf, ok := obj.(*types.Func)
		if !ok {
			return nil, fmt.Errorf("detached contract: method %s not found on %s", target[k+1:], t)
		}
		f = mf
	} else {
		p := pkg
		name := target
		if k := strings.LastIndex(target, "."); k >= 0 {
			p = v.findPackage(pkg, target[:k])
			name = target[k+1:]
		}
		if p == nil {
			return nil, fmt.Errorf("unknown package for %q", target)
		}
		cpkg = p
		o := p.Scope().Lookup(name)
		ff, ok := o.(*types.Func)
		if !ok {
			return nil, fmt.Errorf("detached contract: function %q not found in %s", name, p.Path())
		}
		f = ff
	}
	if pkg == nil {
		pkg = cpkg
	}
	sig := f.Type().(*types.Signature)
	bc := &BoundContract{C: ct, Func: f, Pkg: pkg, Full: f.FullName()}
	if anonPath != "" {
		fn := v.ssaFunc(f)
		for _, part := range strings.Split(anonPath[1:], "$") {
			k, _ := strconv.Atoi(part)
			if fn == nil || k < 1 || k > len(fn.AnonFuncs) {
				return nil, fmt.Errorf("detached contract: %s has no function literal %s", f.FullName(), anonPath)
			}
			fn = fn.AnonFuncs[k-1]
		}
		bc.Anon = fn
		bc.Full = f.FullName() + anonPath
		sig = fn.Signature
	}
	if sig.Recv() != nil {
		bc.Recv = sig.Recv().Name()
		if bc.Recv == "" || bc.Recv == "_" {
			bc.Recv = "recv"
		}
	}
	explicit := ct.Params
	if sig.Recv() != nil && len(explicit) == sig.Params().Len()+1 {
		bc.Recv = explicit[0]
		explicit = explicit[1:]
	}
	for i := 0; i < sig.Params().Len(); i++ {
		n := sig.Params().At(i).Name()
		if i < len(explicit) {
			n = explicit[i]
		}
		if n == "" || n == "_" {
			n = fmt.Sprintf("p%d", i)
		}
		bc.Params = append(bc.Params, n)
	}
	for i := 0; i < sig.Results().Len(); i++ {
		n := sig.Results().At(i).Name()
		if n == "" || n == "_" {
			if sig.Results().Len() == 1 {
				n = "result"
			} else {
				n = fmt.Sprintf("result%d", i)
			}
			if i == sig.Results().Len()-1 && sig.Results().At(i).Type().String() == "error" {
				n = "err"
				for _, pn := range bc.Params {
					if pn == "err" {
						n = "result"
					}
				}
			}
		}
		bc.Results = append(bc.Results, n)
	}
	return bc, nil
}

func (v *Verifier) contractFor(full string) *BoundContract { return v.contracts[full] }

func (v *Verifier) contractForFn(fn *ssa.Function) *BoundContract {
	if f, ok := fn.Object().(*types.Func); ok && f != nil {
		return v.contracts[f.FullName()]
	}
	// function literal: Outer$k
	if p := fn.Parent(); p != nil {
		suffix := ""
		for q := fn; q.Parent() != nil; q = q.Parent() {
			suffix = strings.TrimPrefix(q.Name(), q.Parent().Name()) + suffix
		}
		root := fn
		for root.Parent() != nil {
			root = root.Parent()
		}
		if f, ok := root.Object().(*types.Func); ok && f != nil {
			return v.contracts[f.FullName()+suffix]
		}
	}
	return nil
}

func (v *Verifier) canonMethod(m *types.Func) string { return m.FullName() }

// isPureIface reports whether interface method m is declared a pure abstract field.
func (v *Verifier) isPureIface(m *types.Func) bool {
	sig := m.Type().(*types.Signature)
	if sig.Recv() == nil {
		return false
	}
	rt := sig.Recv().Type()
	var short string
	if n, ok := rt.(*types.Named); ok && n.Obj().Pkg() != nil {
		short = n.Obj().Pkg().Name() + "." + n.Obj().Name() + "." + m.Name()
	} else if n, ok := rt.(*types.Named); ok {
		short = "builtin." + n.Obj().Name() + "." + m.Name()
	} else if m.Pkg() != nil {
		short = m.Pkg().Name() + ".?." + m.Name()
	} else {
		short = "builtin.?." + m.Name()
	}
	for _, p := range v.purePats {
		if ok, _ := path.Match(p, short); ok {
			return true
		}
	}
	return false
}

func (v *Verifier) assumeGlobalAxioms(c *Ctx, st *State, guard *Term) {
	v.assumeSentinels(c, st, guard)
	for _, a := range v.axioms {
		env := newEnv(c, a.Pkg)
		env.st = st
		env.old = st
		t, err := env.evalBool(a.A.Expr)
		if err != nil {
			c.unsup = append(c.unsup, fmt.Sprintf("%s: axiom %s: %v", a.A.Pos, a.A.Name, err))
			continue
		}
		ax := tImp(guard, t).S
		if strings.HasPrefix(a.A.Name, "def-") {
			// the definition of an opaque spec function matters only where the function is used
			ax = "REQ:" + smtName("sf_"+strings.TrimPrefix(a.A.Name, "def-")) + "\x00" + ax
		}
		c.sc.gaxioms = append(c.sc.gaxioms, ax)
	}
}

// ---------- obligations ----------

func (c *Ctx) addObl(fr *Frame, o *Obligation) {
	fn := c.top
	o.Func = fn.String()
	lab := o.Label
	if lab == "" {
		lab = o.Kind
	}
	o.Name = fmt.Sprintf("%s#%s@%s", funcShort(fn), lab, o.Site)
	if fr != nil && fr.id != "" {
		o.Name += "[" + fr.fn.Name() + "]"
	}
	// several clauses may share a label and a site: number them
	if c.nameSeen == nil {
		c.nameSeen = map[string]int{}
	}
	c.nameSeen[o.Name]++
	if n := c.nameSeen[o.Name]; n > 1 {
		o.Name = fmt.Sprintf("%s~%d", o.Name, n)
	}
	if o.Guard == nil {
		o.Guard = tTrue
	}
	o.script = c.sc
	o.nAssert = len(c.sc.asserts)
	o.nDecl = len(c.sc.decls)
	o.nAxiom = len(c.sc.axioms)
	o.nGax = len(c.sc.gaxioms)
	c.obls = append(c.obls, o)
}

func funcShort(fn *ssa.Function) string {
	s := fn.String()
	s = strings.ReplaceAll(s, repoModule+"/", "")
	s = strings.ReplaceAll(s, repoModule, "fosite")
	return s
}

func (o *Obligation) render() string {
	sc := o.script
	view := &Script{decls: sc.decls[:o.nDecl], asserts: sc.asserts[:o.nAssert], strLits: sc.strLits, axioms: sc.axioms[:o.nAxiom], gaxioms: sc.gaxioms[:o.nGax]}
	return view.render([]string{o.Guard.S, tNot(o.Goal).S}, nil)
}

// FuncResult is the outcome of verifying one function.
type FuncResult struct {
	Func     string
	Contract *BoundContract
	Obls     []*Obligation
	Unsup    []string
	Notes    []string
	Trusted  []string
	Applied  []string // verified (non-trusted) repo contracts applied at call sites
	Covers   []*Cover
	Script   *Script
	Vacuous  string // non-empty: assumptions are contradictory
	Ms       int64
}

// generate builds the verification conditions of one function under contract.
func (v *Verifier) generate(bc *BoundContract) *FuncResult {
	t0 := time.Now()
	res := &FuncResult{Func: bc.Full, Contract: bc}
	fn := v.ssaFunc(bc.Func)
	if bc.Anon != nil {
		fn = bc.Anon
	}
	if fn == nil || len(fn.Blocks) == 0 {
		res.Unsup = append(res.Unsup, "no SSA body for "+bc.Full)
		return res
	}
	loopW := map[string]map[string]bool{}
	// heap keys are created on first use; a key first used after a "modifies everything" call would otherwise be
	// read as unchanged since entry. All keys seen in one pass exist from the start of the next, until stable.
	knownKeys := map[string]Sort{}
	for iter := 0; iter < 10; iter++ {
		c := &Ctx{V: v, sc: newScript(), keys: map[string]*heapInfo{}, loopW: loopW, callSeq: map[string]int{}, typeIDs: map[string]int{}, top: fn, trusted: map[string]bool{}, pfSigs: map[string]string{}, bridging: bc.C.Bridge}
		st := newState()
		c.key("$clk", SInt)
		{
			ks := make([]string, 0, len(knownKeys))
			for k := range knownKeys {
				ks = append(ks, k)
			}
			sort.Strings(ks)
			for _, k := range ks {
				c.key(k, knownKeys[k])
			}
		}
		c.sc.assert(mk(SBool, "(>= %s 0)", c.clk(st).S))
		c.entry = st
		env := newEnv(c, fn.Pkg.Pkg)
		env.st = st
		env.old = st
		var params []*Val
		for _, p := range fn.Params {
			pv := c.freshVal("p_"+p.Name(), p.Type())
			for _, l := range leavesOf(p.Type()) {
				lv := pv.at(l.path)
				if lv.T != nil && lv.T.Sort == SV {
					c.assumeExisting(st, lv.T, tTrue)
					if _, isPtr := l.typ.Underlying().(*types.Pointer); isPtr {
						c.sc.assert(tImp(tNot(tEq(lv.T, tNull)), tEq(tApp(SInt, "dyntype", lv.T), c.typeID(l.typ))))
					}
				}
			}
			params = append(params, pv)
		}
		bc.bindParams(env, nil, params, fn)
		// captured variables of a function literal: arbitrary existing cells, named as in the source
		var free []*Val
		for _, fv := range fn.FreeVars {
			x := c.freshVal("fv_"+fv.Name(), fv.Type())
			if x.T != nil && x.T.Sort == SV {
				c.assumeExisting(st, x.T, tTrue)
				if _, isPtr := fv.Type().Underlying().(*types.Pointer); isPtr {
					c.sc.assert(tNot(tEq(x.T, tNull)))
				}
			}
			free = append(free, x)
			if env.free == nil {
				env.free = map[string]*Val{}
			}
			env.free[fv.Name()] = x
		}
		v.assumeGlobalAxioms(c, st, tTrue)
		v.initFrame(c, bc, env)
		c.protect = nil
		if !bc.C.Trusted {
			for _, cl := range bc.C.Clauses {
				if cl.Kind == "protects" {
					c.protect = append(c.protect, cl)
				}
			}
		}
		for _, cl := range bc.C.Clauses {
			if cl.Kind == "requires" {
				t, err := env.evalBool(cl.Expr)
				if err != nil {
					c.unsup = append(c.unsup, fmt.Sprintf("%s: requires: %v", cl.Pos, err))
					continue
				}
				c.sc.assert(t)
			}
		}
		fr := &Frame{c: c, fn: fn, params: params, free: free, contract: bc.C, env: env}
		fr.onReturn = func(f *Frame, ret *ssa.Return, s *State, g *Term, results []*Val) {
			c.retSeq++
			site := fmt.Sprintf("ret%d", c.retSeq)
			c.covers = append(c.covers, &Cover{Name: funcShort(fn) + "@" + site, Reach: g})
			post := env.child()
			post.st = s
			post.old = c.entry
			var rv *Val
			switch len(results) {
			case 0:
				rv = &Val{}
			case 1:
				rv = results[0]
			default:
				rv = &Val{Fs: results}
			}
			bc.bindResults(post, rv)
			// ghost assignments of the function's own contract take effect at the return (ghost code)
			for _, cl := range bc.C.Clauses {
				if cl.Kind != "sets" {
					continue
				}
				oenv := *post
				oenv.st = c.entry
				val, err := oenv.eval(cl.Exprs[1])
				if err == nil {
					err = c.assign(post, cl.Exprs[0], val, s)
				}
				if err != nil {
					c.unsup = append(c.unsup, fmt.Sprintf("%s: sets: %v", cl.Pos, err))
				}
			}
			for _, cl := range bc.C.Clauses {
				if cl.Kind != "ensures" {
					continue
				}
				t, err := post.evalBool(cl.Expr)
				if err != nil {
					c.unsup = append(c.unsup, fmt.Sprintf("%s: ensures: %v", cl.Pos, err))
					continue
				}
				c.addObl(f, &Obligation{Label: cl.Label, Pending: cl.Pending, Kind: "ensures", Site: site, Clause: cl.Text, Pos: cl.Pos, Guard: g, Goal: t, Where: f.posShort(ret.Pos())})
			}
			v.frameObligation(c, f, bc, s, g, site, env)
			v.heapFrameObligation(c, f, bc, s, g, site, env, ret)
		v.protectObligations(c, f, s, g, site, ret)
			v.readonlyObligation(c, f, bc, s, g, site, ret)
		}
		c.loopWNew = false
		fr.run(st, tTrue)
		newKeys := false
		for k, hi := range c.keys {
			if _, ok := knownKeys[k]; !ok {
				knownKeys[k] = hi.sort
				newKeys = true
			}
		}
		if !c.loopWNew && !newKeys {
			res.Obls = c.obls
			res.Unsup = c.unsup
			res.Notes = c.notes
			res.Covers = c.covers
			res.Script = c.sc
			for k := range c.trusted {
				res.Trusted = append(res.Trusted, k)
			}
			for k := range c.applied {
				res.Applied = append(res.Applied, k)
			}
			sort.Strings(res.Applied)
			sort.Strings(res.Trusted)
			break
		}
	}
	res.Ms = time.Since(t0).Milliseconds()
	return res
}

// frameObligation: ghost state and abstract fields not named in modifies/sets are unchanged.
func (v *Verifier) frameObligation(c *Ctx, fr *Frame, bc *BoundContract, s *State, g *Term, site string, env *Env) {
	if bc.C.Trusted {
		return
	}
	allowed := map[string]bool{}
	everything := false
	for _, cl := range bc.C.Clauses {
		if cl.Kind == "modifies" {
			for _, x := range cl.Exprs {
				if id, ok := x.(*EIdent); ok {
					if id.Name == "everything" {
						everything = true
					}
					allowed["G:"+id.Name] = true
				}
			}
		}
		if cl.Kind == "sets" {
			root := cl.Exprs[0]
			for {
				if ix, ok := root.(*EIndex); ok {
					root = ix.X
					continue
				}
				break
			}
			if id, ok := root.(*EIdent); ok {
				allowed["G:"+id.Name] = true
			}
		}
	}
	if everything {
		return
	}
	var parts []*Term
	var names []string
	ks := make([]string, 0, len(s.h))
	for k := range s.h {
		ks = append(ks, k)
	}
	sort.Strings(ks)
	for _, k := range ks {
		if !strings.HasPrefix(k, "G:") || strings.HasPrefix(k, "G:$") || allowed[k] {
			continue
		}
		hi := c.keys[k]
		if s.h[k].S == hi.init.S {
			continue
		}
		if ix, _, ok := arrParts(hi.sort); ok && ix == SV {
			// ghost maps over objects: what they say about objects created during the call is the callee's business
			clk0 := c.keys["$clk"].init
			parts = append(parts, mk(SBool, "(forall ((r V)) (! (=> (< (birth r) %s) (= (select %s r) (select %s r))) :pattern ((select %s r))))", clk0.S, s.h[k].S, hi.init.S, s.h[k].S))
		} else {
			parts = append(parts, tEq(s.h[k], hi.init))
		}
		names = append(names, k[2:])
	}
	if len(parts) == 0 {
		return
	}
	c.addObl(fr, &Obligation{Kind: "frame", Site: site, Clause: "ghost state not listed in modifies/sets is unchanged: " + strings.Join(names, ", "), Guard: g, Goal: tAnd(parts...)})
}

// heapFrameObligation: an object that existed at entry and is not named by a modifies/sets clause has the same
// fields, abstract fields, map contents and pointer cells at the return as at entry. Callers rely on this when
// they apply the contract, so it is checked for every function under contract (not for trusted ones, nor when
// the contract says "modifies everything").
func (v *Verifier) heapFrameObligation(c *Ctx, fr *Frame, bc *BoundContract, s *State, g *Term, site string, env *Env, ret *ssa.Return) {
	if bc.C.Trusted {
		return
	}
	for _, cl := range bc.C.Clauses {
		if cl.Kind == "readonly" {
			return // the stronger readonly obligation covers it
		}
	}
	if !c.frameOn {
		return
	}
	ks := make([]string, 0, len(s.h))
	for k := range s.h {
		ks = append(ks, k)
	}
	goal, names := c.frameCond(s, ks)
	if goal == nil {
		return
	}
	c.addObl(fr, &Obligation{Kind: "frame-heap", Site: site, Clause: "objects that existed at entry and are not named in modifies/sets are unchanged (written: " + strings.Join(names, ", ") + ")", Guard: g, Goal: goal, Where: fr.posShort(ret.Pos())})
}

// protectObligations: "protects [label] G" - no object that existed at entry and is marked in the ghost set G (map[V]bool)
// has a field, abstract field, map content or pointer cell at the return that differs from its entry value, whatever the
// modifies clauses allow. Callers rely on it when they apply the contract (see applyProtects).
func (v *Verifier) protectObligations(c *Ctx, fr *Frame, s *State, g *Term, site string, ret *ssa.Return) {
	for _, cl := range c.protect {
		ks := make([]string, 0, len(s.h))
		for k := range s.h {
			ks = append(ks, k)
		}
		goal, names, err := c.protectCond(cl, s, c.entry, c.keys["$clk"].init, ks)
		if err != nil {
			c.unsup = append(c.unsup, fmt.Sprintf("%s: protects: %v", cl.Pos, err))
			continue
		}
		if goal == nil {
			continue
		}
		c.addObl(fr, &Obligation{Label: cl.Label, Pending: cl.Pending, Kind: "protects", Site: site, Pos: cl.Pos,
			Clause: cl.Text + "  (written: " + strings.Join(names, ", ") + ")", Guard: g, Goal: goal, Where: fr.posShort(ret.Pos())})
	}
}

// protectCond: for the given heap keys, every object born before clk0 and marked in the protected ghost set (as of state
// from) has in s the value it has in from.
func (c *Ctx) protectCond(cl *Clause, s, from *State, clk0 *Term, keys []string) (*Term, []string, error) {
	id, ok := cl.Expr.(*EIdent)
	if !ok {
		return nil, nil, fmt.Errorf("protects needs the name of a ghost set")
	}
	gv, ok := c.V.ghosts[id.Name]
	if !ok {
		return nil, nil, fmt.Errorf("protects: unknown ghost %s", id.Name)
	}
	gs, err := ghostSort(gv.Type)
	if err != nil {
		return nil, nil, err
	}
	if ix, el, ok := arrParts(gs); !ok || ix != SV || el != SBool {
		return nil, nil, fmt.Errorf("protects: ghost %s is not a map[V]bool", id.Name)
	}
	c.key("G:"+id.Name, gs)
	set := c.get(from, "G:"+id.Name, gs)
	ks := append([]string{}, keys...)
	sort.Strings(ks)
	var parts []*Term
	var names []string
	for _, k := range ks {
		if !(strings.HasPrefix(k, "F:") || strings.HasPrefix(k, "P:") || strings.HasPrefix(k, "A:") || strings.HasPrefix(k, "MD:") || strings.HasPrefix(k, "MV:") || strings.HasPrefix(k, "AF:")) {
			continue
		}
		hi := c.keys[k]
		cur, ok := s.h[k]
		if hi == nil || !ok {
			continue
		}
		was, ok := from.h[k]
		if !ok {
			was = hi.init
		}
		if cur.S == was.S {
			continue
		}
		if ix, _, ok := arrParts(hi.sort); !ok || ix != SV {
			continue
		}
		parts = append(parts, mk(SBool, "(forall ((r V)) (! (=> (and (< (birth r) %s) (select %s r)) (= (select %s r) (select %s r))) :pattern ((select %s r))))", clk0.S, set.S, cur.S, was.S, cur.S))
		names = append(names, k)
	}
	if len(parts) == 0 {
		return nil, nil, nil
	}
	return tAnd(parts...), names, nil
}

// initFrame evaluates the modifies/sets targets of the function under verification in its entry state.
func (v *Verifier) initFrame(c *Ctx, bc *BoundContract, env *Env) {
	c.frameOn = false
	if bc.C.Trusted {
		return
	}
	tenv := env.child()
	tenv.st = c.entry
	tenv.old = c.entry
	tenv.frame = nil
	tenv.blk = nil
	targets := map[string][]*Term{}
	for _, cl := range bc.C.Clauses {
		var xs []Expr
		switch cl.Kind {
		case "modifies":
			xs = cl.Exprs
		case "sets":
			xs = cl.Exprs[:1]
		}
		for _, x := range xs {
			if id, ok := x.(*EIdent); ok && (id.Name == "everything" || id.Name == "anyheap") {
				return
			}
			c.frameTargets(tenv, x, targets)
		}
	}
	c.frameOn = true
	c.frameT = targets
}

// frameCond: for the given heap keys, every object born before entry and not a modifies target has its entry value.
func (c *Ctx) frameCond(s *State, keys []string) (*Term, []string) {
	clk0 := c.keys["$clk"].init
	ks := append([]string{}, keys...)
	sort.Strings(ks)
	var parts []*Term
	var names []string
	for _, k := range ks {
		if !(strings.HasPrefix(k, "F:") || strings.HasPrefix(k, "P:") || strings.HasPrefix(k, "A:") || strings.HasPrefix(k, "MD:") || strings.HasPrefix(k, "MV:") || strings.HasPrefix(k, "AF:")) {
			continue
		}
		hi := c.keys[k]
		cur, ok := s.h[k]
		if hi == nil || !ok || cur.S == hi.init.S {
			continue
		}
		if ix, _, ok := arrParts(hi.sort); !ok || ix != SV {
			continue
		}
		conds := []string{fmt.Sprintf("(< (birth r) %s)", clk0.S)}
		for _, t := range c.frameT[k] {
			conds = append(conds, fmt.Sprintf("(not (= r %s))", t.S))
		}
		parts = append(parts, mk(SBool, "(forall ((r V)) (! (=> (and %s) (= (select %s r) (select %s r))) :pattern ((select %s r))))", strings.Join(conds, " "), cur.S, hi.init.S, cur.S))
		names = append(names, k)
	}
	if len(parts) == 0 {
		return nil, nil
	}
	return tAnd(parts...), names
}

// frameTargets adds the (heap key, object) pairs a modifies/sets target allows to change.
func (c *Ctx) frameTargets(env *Env, x Expr, out map[string][]*Term) {
	add := func(k string, srt Sort, t *Term) {
		c.key(k, srt)
		out[k] = append(out[k], t)
	}
	var fieldsOf func(t types.Type, base *Term)
	fieldsOf = func(t types.Type, base *Term) {
		stt, ok := t.Underlying().(*types.Struct)
		if !ok {
			return
		}
		for i := 0; i < stt.NumFields(); i++ {
			f := stt.Field(i)
			if fs, ok := sortOf(f.Type()); ok {
				if _, isArr := f.Type().Underlying().(*types.Array); !isArr {
					add(fieldKey(t, f), ArrSort(SV, fs), base)
					continue
				}
			}
			if _, isStruct := f.Type().Underlying().(*types.Struct); isStruct {
				fieldsOf(f.Type(), tApp(SV, c.embFun(t, f), base))
			}
		}
	}
	switch n := x.(type) {
	case *ECall:
		if id, ok := n.Fun.(*EIdent); ok && len(n.Args) == 1 {
			switch id.Name {
			case "mapof":
				m, err := env.eval(n.Args[0])
				if err != nil || m.T == nil {
					return
				}
				mi, err := c.mapInfo(m.Typ)
				if err != nil {
					return
				}
				add(mi.dom, mi.domSort, m.T)
				for _, l := range leavesOf(m.Typ.Underlying().(*types.Map).Elem()) {
					k, ks := c.mapValKey(m.Typ, l)
					add(k, ks, m.T)
				}
				return
			case "fields":
				p, err := env.eval(n.Args[0])
				if err != nil || p.T == nil || p.Typ == nil {
					return
				}
				if pt, ok := p.Typ.Underlying().(*types.Pointer); ok {
					fieldsOf(pt.Elem(), p.T)
				}
				return
			case "cell":
				// cell(x): the captured variable x of a function literal (the cell shared with the enclosing function)
				if id, ok := n.Args[0].(*EIdent); ok {
					if fv, ok := env.free[id.Name]; ok && fv.T != nil {
						if pt, ok := fv.Typ.Underlying().(*types.Pointer); ok {
							if es, ok := sortOf(pt.Elem()); ok {
								add("P:"+typeKey(pt.Elem()), ArrSort(SV, es), fv.T)
							}
						}
					}
				}
				return
			case "deref":
				p, err := env.eval(n.Args[0])
				if err != nil || p.T == nil || p.Typ == nil {
					return
				}
				if pt, ok := p.Typ.Underlying().(*types.Pointer); ok {
					if es, ok := sortOf(pt.Elem()); ok {
						add("P:"+typeKey(pt.Elem()), ArrSort(SV, es), p.T)
					}
				}
				return
			}
		}
		if sel, ok := n.Fun.(*ESel); ok {
			recv, err := env.eval(sel.X)
			if err != nil || recv.T == nil || recv.Typ == nil {
				return
			}
			obj, _, _ := types.LookupFieldOrMethod(recv.Typ, true, env.pkg, sel.Name)
			m, ok := obj.(*types.Func)
			if !ok {
				return
			}
			if k, srt, err := c.afKey(m); err == nil {
				add(k, srt, recv.T)
			}
			for _, b := range c.bridgesOf(m) {
				fs, _ := sortOf(b.field.Type())
				add(fieldKey(b.owner, b.field), ArrSort(SV, fs), c.bridgeBase(b, recv.T))
			}
		}
	case *ESel:
		recv, err := env.eval(n.X)
		if err != nil || recv.T == nil || recv.Typ == nil {
			return
		}
		owner, f, base, ok := c.fieldRef(env, recv, n.Name)
		if !ok {
			return
		}
		if fs, ok := sortOf(f.Type()); ok {
			if _, isArr := f.Type().Underlying().(*types.Array); !isArr {
				add(fieldKey(owner, f), ArrSort(SV, fs), base)
				return
			}
		}
		if _, isStruct := f.Type().Underlying().(*types.Struct); isStruct {
			fieldsOf(f.Type(), tApp(SV, c.embFun(owner, f), base))
		}
	}
}

// fieldRef resolves p.name (possibly promoted through embedded structs) to the struct type declaring the field,
// the field, and the reference of that struct inside the object p points to.
func (c *Ctx) fieldRef(env *Env, recv *Val, name string) (types.Type, *types.Var, *Term, bool) {
	p, ok := recv.Typ.Underlying().(*types.Pointer)
	if !ok {
		return nil, nil, nil, false
	}
	obj, index, _ := types.LookupFieldOrMethod(recv.Typ, true, env.pkg, name)
	f, ok := obj.(*types.Var)
	if !ok {
		// unexported field of another package
		if stt, ok := p.Elem().Underlying().(*types.Struct); ok {
			for i := 0; i < stt.NumFields(); i++ {
				if stt.Field(i).Name() == name {
					f = stt.Field(i)
					index = []int{i}
				}
			}
		}
		if f == nil {
			return nil, nil, nil, false
		}
	}
	var cur types.Type = p.Elem()
	base := recv.T
	for k, idx := range index {
		stt, ok := cur.Underlying().(*types.Struct)
		if !ok {
			return nil, nil, nil, false
		}
		fld := stt.Field(idx)
		if k == len(index)-1 {
			return cur, fld, base, true
		}
		switch ft := fld.Type().Underlying().(type) {
		case *types.Struct:
			base = tApp(SV, c.embFun(cur, fld), base)
			cur = fld.Type()
		case *types.Pointer:
			base = c.loadField(env.st, base, cur, fld).T
			cur = ft.Elem()
		default:
			return nil, nil, nil, false
		}
	}
	return nil, nil, nil, false
}

// readonlyObligation: a function declared readonly leaves every object that existed at entry unchanged
// (it may allocate and initialise new objects).
func (v *Verifier) readonlyObligation(c *Ctx, fr *Frame, bc *BoundContract, s *State, g *Term, site string, ret *ssa.Return) {
	var cl *Clause
	for _, x := range bc.C.Clauses {
		if x.Kind == "readonly" {
			cl = x
		}
	}
	if cl == nil {
		return
	}
	clk0 := c.keys["$clk"].init
	ks := make([]string, 0, len(s.h))
	for k := range s.h {
		ks = append(ks, k)
	}
	sort.Strings(ks)
	var parts []*Term
	var names []string
	for _, k := range ks {
		if !(strings.HasPrefix(k, "F:") || strings.HasPrefix(k, "P:") || strings.HasPrefix(k, "A:") || strings.HasPrefix(k, "MD:") || strings.HasPrefix(k, "MV:") || strings.HasPrefix(k, "AF:")) {
			continue
		}
		hi := c.keys[k]
		if s.h[k].S == hi.init.S {
			continue
		}
		parts = append(parts, mk(SBool, "(forall ((r V)) (=> (< (birth r) %s) (= (select %s r) (select %s r))))", clk0.S, s.h[k].S, hi.init.S))
		names = append(names, k)
	}
	goal := tAnd(parts...)
	c.addObl(fr, &Obligation{Label: cl.Label, Pending: cl.Pending, Kind: "readonly", Site: site, Clause: "readonly: no object that existed at entry is modified (written: " + strings.Join(names, ", ") + ")", Pos: cl.Pos, Guard: g, Goal: goal, Where: fr.posShort(ret.Pos())})
}

func (v *Verifier) ssaFunc(f *types.Func) *ssa.Function {
	return v.prog.FuncValue(f)
}

// ---------- solving ----------

func (v *Verifier) solveAll(obls []*Obligation, workers int) {
	var wg sync.WaitGroup
	ch := make(chan *Obligation)
	for w := 0; w < workers; w++ {
		wg.Add(1)
		go func() {
			defer wg.Done()
			for o := range ch {
				to := v.timeoutMs
				if o.TimeoutMs > 0 {
					to = o.TimeoutMs
				}
				o.Res = solve(o.render(), v.tmpdir, to, v.agree)
			}
		}()
	}
	for _, o := range obls {
		ch <- o
	}
	close(ch)
	wg.Wait()
}

// checkWiring keeps a "wiring" declaration only if, in the current source, the field is stored to nowhere in the
// repository except into an object allocated in the same function (construction). Otherwise the declaration is
// dropped with a note, and calls that may modify anything also forget the field.
func (v *Verifier) checkWiring() {
	if len(v.wiring) == 0 {
		return
	}
	bad := map[string]string{}
	var scan func(fn *ssa.Function)
	scan = func(fn *ssa.Function) {
		for _, b := range fn.Blocks {
			for _, in := range b.Instrs {
				st, ok := in.(*ssa.Store)
				if !ok {
					continue
				}
				fa, ok := st.Addr.(*ssa.FieldAddr)
				if !ok {
					continue
				}
				pt, ok := fa.X.Type().Underlying().(*types.Pointer)
				if !ok {
					continue
				}
				stt, ok := pt.Elem().Underlying().(*types.Struct)
				if !ok {
					continue
				}
				k := fieldKey(pt.Elem(), stt.Field(fa.Field))
				if _, decl := v.wiring[k]; !decl {
					continue
				}
				if _, isAlloc := fa.X.(*ssa.Alloc); isAlloc {
					continue // construction of a new object
				}
				bad[k] = fn.String()
			}
		}
		for _, a := range fn.AnonFuncs {
			scan(a)
		}
	}
	for _, sp := range v.ssaPkgs {
		for _, m := range sp.Members {
			switch x := m.(type) {
			case *ssa.Function:
				scan(x)
			case *ssa.Type:
				for _, recv := range []types.Type{x.Type(), types.NewPointer(x.Type())} {
					ms := v.prog.MethodSets.MethodSet(recv)
					for i := 0; i < ms.Len(); i++ {
						if fn := v.prog.MethodValue(ms.At(i)); fn != nil && fn.Pkg == sp {
							scan(fn)
						}
					}
				}
			}
		}
	}
	for k, where := range bad {
		v.loadNotes = append(v.loadNotes, "wiring declaration dropped: "+k+" is assigned in "+where)
		delete(v.wiring, k)
	}
}
