package main

import (
	"fmt"
	"go/token"
	"go/types"
	"runtime"
	"sort"
	"strings"

	"golang.org/x/tools/go/ssa"
)

type deferred struct {
	guard *Term
	call  *ssa.CallCommon
	instr ssa.Instruction
	args  []*Val
	fnv   *Val
}

// Frame executes one SSA function body symbolically.
type Frame struct {
	c        *Ctx
	fn       *ssa.Function
	id       string // inline path; "" for the top-level function
	vals     map[ssa.Value]*Val
	reach    map[*ssa.BasicBlock]*Term
	out      map[*ssa.BasicBlock]*State
	done     map[*ssa.BasicBlock]bool
	params   []*Val
	free     []*Val
	defers   []deferred
	contract *Contract // contract providing loop invariants / asserts (may be nil)
	env      *Env      // environment for evaluating the contract (params bound)
	onReturn func(fr *Frame, ret *ssa.Return, st *State, guard *Term, results []*Val)
	loops    map[*ssa.BasicBlock]*loopInfo
	order    []*ssa.BasicBlock
	backEdge map[[2]*ssa.BasicBlock]bool
	unsup    bool
	rangeIt  map[ssa.Value]*rangeState
	curBlock *ssa.BasicBlock
	closures []*Val // closures created in this frame (candidates for calls of function values)
	calleeOperands map[*ssa.Function]bool
}

type loopInfo struct {
	head    *ssa.BasicBlock
	ordinal int // 1-based, source order
	body    map[*ssa.BasicBlock]bool
	entrySt *State // state right after havoc at head
	preSt   *State // state on loop entry, before the havoc (for pre(e) in invariants)
	phiVals map[*ssa.Phi]*Val
}

type rangeState struct {
	x    *Val
	typ  types.Type
	head *ssa.BasicBlock
	key  string // state key of the ghost set of keys visited so far (map ranges)
}

func (fr *Frame) unsupported(pos token.Pos, format string, a ...interface{}) {
	msg := fmt.Sprintf(format, a...)
	p := fr.fn.Prog.Fset.Position(pos)
	fr.c.unsup = append(fr.c.unsup, fmt.Sprintf("%s: %s (in %s)", p, msg, fr.fn.String()))
	fr.unsup = true
}

// analyse computes back edges, loop bodies and a topological order.
func (fr *Frame) analyse() {
	fn := fr.fn
	fr.backEdge = map[[2]*ssa.BasicBlock]bool{}
	fr.loops = map[*ssa.BasicBlock]*loopInfo{}
	for _, b := range fn.Blocks {
		for _, s := range b.Succs {
			if s.Dominates(b) {
				fr.backEdge[[2]*ssa.BasicBlock{b, s}] = true
				li := fr.loops[s]
				if li == nil {
					li = &loopInfo{head: s, body: map[*ssa.BasicBlock]bool{s: true}}
					fr.loops[s] = li
				}
				// natural loop body: nodes that reach b without passing s
				stack := []*ssa.BasicBlock{b}
				for len(stack) > 0 {
					n := stack[len(stack)-1]
					stack = stack[:len(stack)-1]
					if li.body[n] {
						continue
					}
					li.body[n] = true
					stack = append(stack, n.Preds...)
				}
			}
		}
	}
	// loop ordinals by source position of the head block's first positioned instruction,
	// falling back to block index
	var heads []*ssa.BasicBlock
	for h := range fr.loops {
		heads = append(heads, h)
	}
	posOf := func(b *ssa.BasicBlock) token.Pos {
		best := token.NoPos
		for blk := range fr.loops[b].body {
			for _, in := range blk.Instrs {
				if p := in.Pos(); p != token.NoPos && (best == token.NoPos || p < best) {
					best = p
				}
			}
		}
		return best
	}
	sort.Slice(heads, func(i, j int) bool {
		pi, pj := posOf(heads[i]), posOf(heads[j])
		if pi != pj {
			return pi < pj
		}
		return heads[i].Index < heads[j].Index
	})
	for i, h := range heads {
		fr.loops[h].ordinal = i + 1
	}
	// reverse postorder ignoring back edges
	seen := map[*ssa.BasicBlock]bool{}
	var post []*ssa.BasicBlock
	var dfs func(b *ssa.BasicBlock)
	dfs = func(b *ssa.BasicBlock) {
		seen[b] = true
		for _, s := range b.Succs {
			if fr.backEdge[[2]*ssa.BasicBlock{b, s}] || seen[s] {
				continue
			}
			dfs(s)
		}
		post = append(post, b)
	}
	if len(fn.Blocks) > 0 {
		dfs(fn.Blocks[0])
	}
	for i := len(post) - 1; i >= 0; i-- {
		fr.order = append(fr.order, post[i])
	}
}

func (fr *Frame) loopID(h *ssa.BasicBlock) string {
	return fmt.Sprintf("%s|%s|%d", fr.id, fr.fn.String(), h.Index)
}

// edgeCond returns the branch condition for edge p -> s.
func (fr *Frame) edgeCond(p, s *ssa.BasicBlock) *Term {
	if len(p.Instrs) == 0 {
		return tTrue
	}
	if ifi, ok := p.Instrs[len(p.Instrs)-1].(*ssa.If); ok {
		cv := fr.val(ifi.Cond)
		if cv == nil || cv.T == nil {
			return tTrue
		}
		if p.Succs[0] == s && p.Succs[1] == s {
			return tTrue
		}
		if p.Succs[0] == s {
			return cv.T
		}
		return tNot(cv.T)
	}
	return tTrue
}

func (fr *Frame) val(v ssa.Value) *Val {
	if x, ok := fr.vals[v]; ok {
		return x
	}
	c := fr.c
	switch k := v.(type) {
	case *ssa.Const:
		return c.constVal(k)
	case *ssa.Global:
		name := smtName("glob_" + k.Pkg.Pkg.Path() + "." + k.Name())
		c.sc.declareConst(name, SV)
		if !c.sc.declSeen["nn:"+name] {
			c.sc.declSeen["nn:"+name] = true
			c.sc.assert(mk(SBool, "(and (not (= %s null)) (< (birth %s) 0))", name, name))
		}
		x := scalar(&Term{name, SV}, k.Type())
		fr.vals[v] = x
		return x
	case *ssa.Function:
		name := smtName("func_" + k.String())
		c.sc.declareConst(name, SV)
		if !c.sc.declSeen["nn:"+name] {
			c.sc.declSeen["nn:"+name] = true
			c.sc.assert(mk(SBool, "(and (not (= %s null)) (< (birth %s) 0))", name, name))
		}
		x := &Val{T: &Term{name, SV}, Typ: k.Type(), Clo: &Closure{Fn: k}}
		fr.vals[v] = x
		// a named function used as a value is a candidate target of later calls of function values
		if _, isCallee := fr.calleeOperands[k]; !isCallee {
			fr.closures = append(fr.closures, x)
		}
		return x
	case *ssa.Builtin:
		return &Val{Typ: k.Type()}
	case *ssa.FreeVar:
		for i, fv := range fr.fn.FreeVars {
			if fv == k && i < len(fr.free) {
				return fr.free[i]
			}
		}
	case *ssa.Parameter:
		for i, p := range fr.fn.Params {
			if p == k && i < len(fr.params) {
				return fr.params[i]
			}
		}
	}
	fr.unsupported(v.Pos(), "value %s (%T) used before definition", v.Name(), v)
	x := c.freshVal("undef_"+v.Name(), v.Type())
	fr.vals[v] = x
	return x
}

// run executes the body. Returns are delivered to fr.onReturn.
func (fr *Frame) run(in *State, guard *Term) {
	c := fr.c
	fr.analyse()
	// functions that occur only as the callee of a static call are not function values of this frame
	fr.calleeOperands = map[*ssa.Function]bool{}
	usedAsValue := map[*ssa.Function]bool{}
	for _, b := range fr.fn.Blocks {
		for _, in := range b.Instrs {
			var calleeFn *ssa.Function
			if ci, ok := in.(ssa.CallInstruction); ok {
				if f, ok := ci.Common().Value.(*ssa.Function); ok && !ci.Common().IsInvoke() {
					calleeFn = f
				}
			}
			for _, op := range in.Operands(nil) {
				if op == nil || *op == nil {
					continue
				}
				if f, ok := (*op).(*ssa.Function); ok {
					if ci, isCall := in.(ssa.CallInstruction); isCall && f == calleeFn && op == &ci.Common().Value {
						continue
					}
					usedAsValue[f] = true
				}
			}
			if calleeFn != nil {
				fr.calleeOperands[calleeFn] = true
			}
		}
	}
	for f := range usedAsValue {
		delete(fr.calleeOperands, f)
	}
	fr.vals = map[ssa.Value]*Val{}
	fr.reach = map[*ssa.BasicBlock]*Term{}
	fr.out = map[*ssa.BasicBlock]*State{}
	fr.done = map[*ssa.BasicBlock]bool{}
	fr.rangeIt = map[ssa.Value]*rangeState{}
	for _, b := range fr.order {
		var st *State
		var reach *Term
		li := fr.loops[b]
		if b == fr.fn.Blocks[0] {
			st = in.clone()
			reach = guard
		} else {
			var states []*State
			var conds []*Term
			var preds []*ssa.BasicBlock
			for _, p := range b.Preds {
				if fr.backEdge[[2]*ssa.BasicBlock{p, b}] || !fr.done[p] || fr.out[p] == nil {
					continue
				}
				states = append(states, fr.out[p])
				conds = append(conds, tAnd(fr.reach[p], fr.edgeCond(p, b)))
				preds = append(preds, p)
			}
			if len(states) == 0 {
				// unreachable (e.g. recover block)
				continue
			}
			r := c.sc.freshConst(fmt.Sprintf("reach_%s_b%d", shortFn(fr.fn), b.Index), SBool)
			c.sc.assert(tEq(r, tOr(conds...)))
			reach = r
			st = c.merge(fmt.Sprintf("b%d", b.Index), states, conds)
			// phis
			if li == nil {
				for _, in := range b.Instrs {
					phi, ok := in.(*ssa.Phi)
					if !ok {
						break
					}
					var vs []*Val
					for _, p := range preds {
						vs = append(vs, fr.val(phi.Edges[predIndex(b, p)]))
					}
					fr.vals[phi] = fr.joinVals(phi.Name(), phi.Type(), vs, conds)
				}
			} else {
				fr.loopHead(li, st, reach, preds, conds)
			}
		}
		fr.reach[b] = reach
		fr.execBlock(b, st, reach)
		fr.done[b] = true
	}
}

func predIndex(b, p *ssa.BasicBlock) int {
	for i, q := range b.Preds {
		if q == p {
			return i
		}
	}
	return -1
}

func shortFn(fn *ssa.Function) string {
	n := fn.Name()
	return n
}

// joinVals merges values arriving along edges.
func (fr *Frame) joinVals(name string, t types.Type, vs []*Val, conds []*Term) *Val {
	c := fr.c
	if len(vs) == 1 {
		return vs[0]
	}
	if _, ok := sortOf(t); ok {
		same := true
		for _, v := range vs[1:] {
			if v.T == nil || vs[0].T == nil || v.T.S != vs[0].T.S {
				same = false
			}
		}
		if same && vs[0].T != nil {
			return vs[0]
		}
		s, _ := sortOf(t)
		j := c.sc.freshConst(fr.fn.Name()+"_"+name, s)
		for i, v := range vs {
			if v.T == nil {
				continue
			}
			c.sc.assert(tImp(conds[i], tEq(j, c.coerce(v.T, s))))
		}
		out := scalar(j, t)
		// keep closure knowledge only if all agree
		if vs[0].Clo != nil {
			all := true
			for _, v := range vs[1:] {
				if v.Clo != vs[0].Clo {
					all = false
				}
			}
			if all {
				out.Clo = vs[0].Clo
			}
		}
		return out
	}
	out := &Val{Typ: t}
	for i := range vs[0].Fs {
		var sub []*Val
		for _, v := range vs {
			sub = append(sub, v.Fs[i])
		}
		out.Fs = append(out.Fs, fr.joinVals(fmt.Sprintf("%s.%d", name, i), vs[0].Fs[i].Typ, sub, conds))
	}
	return out
}

// loopHead cuts the loop: check invariant on entry, havoc, assume invariant.
func (fr *Frame) loopHead(li *loopInfo, st *State, reach *Term, preds []*ssa.BasicBlock, conds []*Term) {
	c := fr.c
	b := li.head
	// entry values of phis
	entryPhi := map[ssa.Value]*Val{}
	var phis []*ssa.Phi
	for _, in := range b.Instrs {
		phi, ok := in.(*ssa.Phi)
		if !ok {
			break
		}
		phis = append(phis, phi)
		var vs []*Val
		for _, p := range preds {
			vs = append(vs, fr.val(phi.Edges[predIndex(b, p)]))
		}
		entryPhi[phi] = fr.joinVals(phi.Name()+"_in", phi.Type(), vs, conds)
	}
	li.preSt = st.clone()
	invs := fr.invariants(li)
	if len(invs) == 0 && fr.contract != nil && !fr.contract.Trusted {
		c.notes = append(c.notes, fmt.Sprintf("%s: loop#%d has no invariant (state after the loop is only constrained by the exit condition)", fr.fn.String(), li.ordinal))
	}
	// establishment
	for _, inv := range invs {
		env := fr.envAt(b, st, entryPhi)
		g, err := env.evalBool(inv.Expr)
		if err != nil {
			fr.unsupported(b.Instrs[0].Pos(), "invariant %s: %v", inv.Text, err)
			continue
		}
		fr.c.addObl(fr, &Obligation{Label: inv.Label, Pending: inv.Pending, Kind: "invariant-init", Site: fmt.Sprintf("loop#%d.init", li.ordinal),
			Clause: inv.Text, Pos: inv.Pos, Guard: reach, Goal: g})
	}
	// havoc
	id := fr.loopID(b)
	ks := make([]string, 0)
	for k := range c.loopW[id] {
		ks = append(ks, k)
	}
	sort.Strings(ks)
	for _, k := range ks {
		if k == "$clk" {
			old := c.clk(st)
			n := c.sc.freshConst("clk", SInt)
			c.sc.assert(mk(SBool, "(>= %s %s)", n.S, old.S))
			st.h["$clk"] = n
			continue
		}
		c.havoc(st, k)
	}
	// implicit loop invariant: the function's heap frame (checked again at every back edge)
	if c.frameOn {
		if fc, _ := c.frameCond(st, ks); fc != nil {
			c.sc.assert(tImp(reach, fc))
		}
	}
	for _, cl := range c.protect {
		if pc, _, err := c.protectCond(cl, st, c.entry, c.keys["$clk"].init, ks); err == nil && pc != nil {
			c.sc.assert(tImp(reach, pc))
		}
	}
	// facts about never-reassigned package variables (error sentinels, constant slices) hold in every state
	for _, k := range ks {
		if strings.HasPrefix(k, "P:") || strings.Contains(k, "RFC6749Error") {
			c.V.assumeGlobalAxioms(c, st, reach)
			break
		}
	}
	li.phiVals = map[*ssa.Phi]*Val{}
	for _, phi := range phis {
		v := c.freshVal(fr.fn.Name()+"_"+phi.Name(), phi.Type())
		fr.vals[phi] = v
		li.phiVals[phi] = v
	}
	// range index facts: for go/ssa's rangeindex loops idx >= -1
	for _, phi := range phis {
		if phi.Comment == "rangeindex" {
			c.sc.assert(tImp(reach, mk(SBool, "(>= %s (- 1))", fr.vals[phi].T.S)))
		}
	}
	li.entrySt = st.clone()
	for _, inv := range invs {
		env := fr.envAt(b, st, nil)
		g, err := env.evalBool(inv.Expr)
		if err != nil {
			continue
		}
		c.sc.assert(tImp(reach, g))
	}
}

// backEdgeCheck is called when block p ends with an edge to loop head h.
func (fr *Frame) backEdgeCheck(p, h *ssa.BasicBlock, st *State, guard *Term) {
	c := fr.c
	li := fr.loops[h]
	// record written keys
	id := fr.loopID(h)
	for k, t := range st.h {
		et, ok := li.entrySt.h[k]
		if !ok {
			et = c.keys[k].init
		}
		if t.S != et.S {
			if c.loopW[id] == nil {
				c.loopW[id] = map[string]bool{}
			}
			if !c.loopW[id][k] {
				c.loopW[id][k] = true
				c.loopWNew = true
			}
		}
	}
	if c.frameOn {
		var ks []string
		for k := range c.loopW[id] {
			ks = append(ks, k)
		}
		if fc, names := c.frameCond(st, ks); fc != nil {
			c.addObl(fr, &Obligation{Kind: "frame-heap", Site: fmt.Sprintf("loop#%d.step(b%d)", li.ordinal, p.Index),
				Clause: "loop body keeps the function's heap frame (written: " + strings.Join(names, ", ") + ")", Guard: guard, Goal: fc})
		}
	}
	for _, cl := range c.protect {
		var ks []string
		for k := range c.loopW[id] {
			ks = append(ks, k)
		}
		if pc, names, err := c.protectCond(cl, st, c.entry, c.keys["$clk"].init, ks); err == nil && pc != nil {
			c.addObl(fr, &Obligation{Label: cl.Label, Pending: cl.Pending, Kind: "protects", Site: fmt.Sprintf("loop#%d.step(b%d)", li.ordinal, p.Index), Pos: cl.Pos,
				Clause: cl.Text + "  (loop body; written: " + strings.Join(names, ", ") + ")", Guard: guard, Goal: pc})
		}
	}
	over := map[ssa.Value]*Val{}
	for _, in := range h.Instrs {
		phi, ok := in.(*ssa.Phi)
		if !ok {
			break
		}
		over[phi] = fr.val(phi.Edges[predIndex(h, p)])
	}
	for _, inv := range fr.invariants(li) {
		env := fr.envAt(h, st, over)
		g, err := env.evalBool(inv.Expr)
		if err != nil {
			fr.unsupported(h.Instrs[0].Pos(), "invariant %s: %v", inv.Text, err)
			continue
		}
		c.addObl(fr, &Obligation{Label: inv.Label, Pending: inv.Pending, Kind: "invariant-step", Site: fmt.Sprintf("loop#%d.step(b%d)", li.ordinal, p.Index),
			Clause: inv.Text, Pos: inv.Pos, Guard: guard, Goal: g})
	}
}

func (fr *Frame) invariants(li *loopInfo) []*Clause {
	if fr.contract == nil {
		return nil
	}
	var out []*Clause
	for _, cl := range fr.contract.Clauses {
		if cl.Kind == "invariant" && cl.Loop == li.ordinal {
			out = append(out, cl)
		}
	}
	return out
}

// envAt builds an environment for evaluating contract expressions at the start of block b.
func (fr *Frame) envAt(b *ssa.BasicBlock, st *State, override map[ssa.Value]*Val) *Env {
	var env *Env
	if fr.env != nil {
		env = fr.env.child()
	} else {
		env = newEnv(fr.c, fr.fn.Pkg.Pkg)
	}
	env.st = st
	env.frame = fr
	env.blk = b
	env.override = override
	if b != nil {
		if li := fr.loops[b]; li != nil {
			env.pre = li.preSt
		}
	}
	return env
}

func (fr *Frame) execBlock(b *ssa.BasicBlock, st *State, reach *Term) {
	fr.curBlock = b
	for _, in := range b.Instrs {
		if _, ok := in.(*ssa.Phi); ok {
			continue
		}
		if fr.execInstr(in, st, reach) {
			// block terminated without successors (return/panic)
			fr.out[b] = nil
			return
		}
	}
	fr.out[b] = st
	// back edges leaving this block
	for _, s := range b.Succs {
		if fr.backEdge[[2]*ssa.BasicBlock{b, s}] {
			fr.backEdgeCheck(b, s, st, tAnd(reach, fr.edgeCond(b, s)))
		}
	}
}

func (fr *Frame) setVal(v ssa.Value, x *Val) {
	if x.Typ == nil {
		x.Typ = v.Type()
	}
	fr.vals[v] = x
}

// name gives scalar results a named constant so that terms stay small.
func (fr *Frame) named(v ssa.Value, t *Term) *Term {
	if len(t.S) < 60 {
		return t
	}
	n := fr.c.sc.freshConst(fr.fn.Name()+"_"+v.Name(), t.Sort)
	fr.c.sc.assert(tEq(n, t))
	return n
}

func (fr *Frame) execInstr(in ssa.Instruction, st *State, reach *Term) (terminated bool) {
	c := fr.c
	defer func() {
		if r := recover(); r != nil {
			msg := fmt.Sprint(r)
			if _, isStr := r.(string); !isStr {
				msg = "engine error: " + msg + " @ " + firstFrames()
			}
			fr.unsupported(in.Pos(), "%s: %s", in.String(), msg)
			if v, ok := in.(ssa.Value); ok {
				if _, has := fr.vals[v]; !has {
					fr.vals[v] = c.freshVal("unsup_"+v.Name(), v.Type())
				}
			}
			return
		}
	}()
	switch i := in.(type) {
	case *ssa.DebugRef:
	case *ssa.Alloc:
		t := i.Type().Underlying().(*types.Pointer).Elem()
		r := c.alloc(st, fr.fn.Name()+"_"+i.Name(), reach)
		c.sc.assert(tImp(reach, tEq(tApp(SInt, "dyntype", r), c.typeID(i.Type()))))
		if at, isArr := t.Underlying().(*types.Array); isArr {
			if _, ok := sortOf(at.Elem()); ok {
				// a zeroed array is the constant zero array (canonical, so that copies into it are functions of the source)
				k, ks, es := c.arrKey(t)
				c.set(st, k, tStore(c.get(st, k, ks), r, c.zeroArr(es)))
				fr.setVal(i, scalar(r, i.Type()))
				break
			}
		}
		c.storeObj(st, r, t, c.zeroVal(t))
		fr.setVal(i, scalar(r, i.Type()))
	case *ssa.Store:
		t := i.Addr.Type().Underlying().(*types.Pointer).Elem()
		if err := c.store(st, fr.val(i.Addr), t, fr.val(i.Val)); err != nil {
			fr.unsupported(i.Pos(), "store: %v", err)
		}
	case *ssa.UnOp:
		fr.execUnOp(i, st, reach)
	case *ssa.BinOp:
		fr.setVal(i, fr.binop(i, i.Op, fr.val(i.X), fr.val(i.Y), i.X.Type(), i.Type()))
	case *ssa.Phi:
	case *ssa.Call:
		res := fr.execCall(i, &i.Call, st, reach)
		if res != nil {
			fr.setVal(i, res)
		}
	case *ssa.ChangeInterface:
		fr.setVal(i, &Val{T: fr.val(i.X).T, Typ: i.Type()})
	case *ssa.ChangeType:
		x := fr.val(i.X)
		fr.setVal(i, &Val{T: x.T, Fs: x.Fs, Typ: i.Type(), Clo: x.Clo})
	case *ssa.Convert:
		fr.setVal(i, fr.convert(i, fr.val(i.X), i.X.Type(), i.Type()))
	case *ssa.MakeInterface:
		fr.setVal(i, fr.makeInterface(i, fr.val(i.X), i.X.Type(), st, reach))
	case *ssa.TypeAssert:
		fr.execTypeAssert(i, st, reach)
	case *ssa.Extract:
		t := fr.val(i.Tuple)
		if i.Index < len(t.Fs) {
			fr.setVal(i, t.Fs[i.Index])
		} else {
			fr.unsupported(i.Pos(), "extract from non-tuple")
			fr.setVal(i, c.freshVal("extract", i.Type()))
		}
	case *ssa.Field:
		x := fr.val(i.X)
		fr.setVal(i, x.Fs[i.Field])
	case *ssa.FieldAddr:
		x := fr.val(i.X)
		pt := i.X.Type().Underlying().(*types.Pointer).Elem()
		stt := pt.Underlying().(*types.Struct)
		f := stt.Field(i.Field)
		if x.T == nil {
			fr.unsupported(i.Pos(), "field address of interior pointer")
			fr.setVal(i, c.freshVal("fa", i.Type()))
			break
		}
		if s, ok := sortOf(f.Type()); ok {
			if _, isArr := f.Type().Underlying().(*types.Array); isArr {
				fr.setVal(i, scalar(tApp(SV, c.embFun(pt, f), x.T), i.Type()))
				break
			}
			_ = s
			fr.setVal(i, &Val{Typ: i.Type(), Loc: &Loc{Kind: "field", Key: fieldKey(pt, f), Base: x.T, Typ: f.Type()}})
		} else {
			fr.setVal(i, scalar(tApp(SV, c.embFun(pt, f), x.T), i.Type()))
		}
	case *ssa.IndexAddr:
		x := fr.val(i.X)
		idx := fr.val(i.Index)
		switch xt := i.X.Type().Underlying().(type) {
		case *types.Slice:
			c.addObl(fr, &Obligation{Kind: "safety", Site: fmt.Sprintf("index@%s", fr.posShort(i.Pos())), Clause: "slice index in range",
				Guard: reach, Goal: mk(SBool, "(and (<= 0 %s) (< %s (slen %s)))", idx.T.S, idx.T.S, x.T.S)})
			if x.ArrRef != nil {
				// the slice covers a local array completely: element access goes to the array's memory
				k, _, _ := c.arrKey(x.ArrT)
				fr.setVal(i, &Val{Typ: i.Type(), Loc: &Loc{Kind: "arrelem", Key: k, Base: x.ArrRef, Idx: idx.T, Typ: xt.Elem()}})
				break
			}
			fr.setVal(i, &Val{Typ: i.Type(), Loc: &Loc{Kind: "slelem", Base: x.T, Idx: idx.T, Typ: xt.Elem()}})
		case *types.Pointer:
			at := xt.Elem().Underlying().(*types.Array)
			k, _, _ := c.arrKey(at)
			fr.setVal(i, &Val{Typ: i.Type(), Loc: &Loc{Kind: "arrelem", Key: k, Base: x.T, Idx: idx.T, Typ: at.Elem()}})
		default:
			fr.unsupported(i.Pos(), "indexaddr on %s", i.X.Type())
		}
	case *ssa.Index:
		x := fr.val(i.X)
		idx := fr.val(i.Index)
		et := elemType(i.X.Type())
		if b, ok := i.X.Type().Underlying().(*types.Basic); ok && b.Info()&types.IsString != 0 {
			c.sc.declareFun("str_at", []Sort{SStr, SInt}, SInt)
			fr.setVal(i, scalar(tApp(SInt, "str_at", x.T, idx.T), i.Type()))
		} else if v := c.slAt(x.T, idx.T, et); v != nil {
			fr.setVal(i, v)
		} else {
			fr.unsupported(i.Pos(), "index of composite elements")
		}
	case *ssa.Lookup:
		x := fr.val(i.X)
		idx := fr.val(i.Index)
		if b, ok := i.X.Type().Underlying().(*types.Basic); ok && b.Info()&types.IsString != 0 {
			c.sc.declareFun("str_at", []Sort{SStr, SInt}, SInt)
			fr.setVal(i, scalar(tApp(SInt, "str_at", x.T, idx.T), i.Type()))
			break
		}
		fr.guardCheck(i, x, false, st, reach)
		v, ok, err := c.mapLookup(st, x.T, i.X.Type(), idx.T)
		if err != nil {
			fr.unsupported(i.Pos(), "lookup: %v", err)
			fr.setVal(i, c.freshVal("lookup", i.Type()))
			break
		}
		for _, l := range leavesOf(v.Typ) {
			lv := v.at(l.path)
			lv.T = fr.named(i, lv.T)
			if lv.T.Sort == SV {
				c.assumeExisting(st, lv.T, reach)
			}
		}
		if i.CommaOk {
			fr.setVal(i, &Val{Typ: i.Type(), Fs: []*Val{v, scalar(ok, types.Typ[types.Bool])}})
		} else {
			fr.setVal(i, v)
		}
	case *ssa.MapUpdate:
		m := fr.val(i.Map)
		fr.guardCheck(i, m, true, st, reach)
		c.addObl(fr, &Obligation{Kind: "safety", Site: fmt.Sprintf("mapwrite@%s", fr.posShort(i.Pos())), Clause: "assignment to entry in nil map",
			Guard: reach, Goal: tNot(tEq(m.T, tNull))})
		if err := c.mapUpdate(st, m.T, i.Map.Type(), fr.val(i.Key).T, fr.val(i.Value)); err != nil {
			fr.unsupported(i.Pos(), "mapupdate: %v", err)
		}
	case *ssa.MakeMap:
		r := c.alloc(st, fr.fn.Name()+"_"+i.Name(), reach)
		if err := c.mapMake(st, r, i.Type()); err != nil {
			fr.unsupported(i.Pos(), "makemap: %v", err)
		}
		fr.setVal(i, scalar(r, i.Type()))
	case *ssa.MakeSlice:
		n := c.sc.freshConst(fr.fn.Name()+"_"+i.Name(), SSl)
		ln := fr.val(i.Len)
		c.sc.assert(tImp(reach, tEq(tApp(SInt, "slen", n), ln.T)))
		if es, ok := sortOf(elemType(i.Type())); ok {
			at := atFun(c, es)
			c.sc.assert(mk(SBool, "(forall ((i Int)) (! (= (%s %s i) %s) :pattern ((%s %s i))))", at, n.S, c.zeroTerm(es).S, at, n.S))
		}
		fr.setVal(i, scalar(n, i.Type()))
	case *ssa.MakeClosure:
		fn := i.Fn.(*ssa.Function)
		r := c.alloc(st, fr.fn.Name()+"_clo_"+i.Name(), reach)
		clo := &Closure{Fn: fn}
		for _, b := range i.Bindings {
			clo.Bind = append(clo.Bind, fr.val(b))
		}
		fr.setVal(i, &Val{T: r, Typ: i.Type(), Clo: clo})
		fr.closures = append(fr.closures, fr.vals[i])
	case *ssa.Slice:
		fr.execSlice(i, st, reach)
	case *ssa.Range:
		fr.guardCheck(i, fr.val(i.X), false, st, reach)
		rs := &rangeState{x: fr.val(i.X), typ: i.X.Type()}
		if mi, err := c.mapInfo(i.X.Type()); err == nil {
			rs.key = fmt.Sprintf("R:%s:%s:%s", fr.id, fr.fn.Name(), i.Name())
			vs := ArrSort(mi.ksort, SBool)
			c.key(rs.key, vs)
			c.set(st, rs.key, mk(vs, "((as const %s) false)", vs))
		}
		fr.rangeIt[i] = rs
		fr.setVal(i, &Val{Typ: i.Type(), T: c.sc.freshConst("iter", SV)})
	case *ssa.Next:
		fr.execNext(i, st, reach)
	case *ssa.Defer:
		d := deferred{guard: reach, call: &i.Call, instr: i}
		for _, a := range i.Call.Args {
			d.args = append(d.args, fr.val(a))
		}
		if !i.Call.IsInvoke() {
			d.fnv = fr.val(i.Call.Value)
		} else {
			d.fnv = fr.val(i.Call.Value)
		}
		fr.defers = append(fr.defers, d)
	case *ssa.RunDefers:
		for k := len(fr.defers) - 1; k >= 0; k-- {
			d := fr.defers[k]
			g := tAnd(reach, d.guard)
			before := st.clone()
			fr.execCallWith(d.instr, d.call, d.fnv, d.args, st, g)
			if d.guard.S != "true" {
				merged := c.merge(fmt.Sprintf("defer%d", k), []*State{st, before}, []*Term{tAnd(reach, d.guard), tAnd(reach, tNot(d.guard))})
				st.h = merged.h
			}
		}
	case *ssa.Return:
		var res []*Val
		for _, r := range i.Results {
			res = append(res, fr.val(r))
		}
		if fr.onReturn != nil {
			fr.onReturn(fr, i, st, reach, res)
		}
		return true
	case *ssa.Panic:
		return true
	case *ssa.If, *ssa.Jump:
	case *ssa.Go, *ssa.Send, *ssa.Select, *ssa.MakeChan:
		fr.unsupported(i.Pos(), "concurrency instruction %s", i.String())
	default:
		fr.unsupported(in.Pos(), "instruction %T: %s", in, in.String())
		if v, ok := in.(ssa.Value); ok {
			fr.setVal(v, c.freshVal("unsup", v.Type()))
		}
	}
	return false
}

// guardCheck emits the lock-discipline obligation for an access to a map that was read from a guarded field.
func (fr *Frame) guardCheck(in ssa.Instruction, m *Val, write bool, st *State, reach *Term) {
	c := fr.c
	if m == nil || m.Prov == nil {
		return
	}
	g := c.V.guards[m.Prov.Key]
	if g == nil {
		return
	}
	mu := tApp(SV, c.embFun(g.Struct, g.Mutex), m.Prov.Base)
	held := tSelect(c.get(st, "G:held", ArrSort(SV, SInt)), mu)
	goal := mk(SBool, "(>= %s 1)", held.S)
	what := "read of " + strings.TrimPrefix(m.Prov.Key, "F:") + " requires " + g.Mutex.Name() + " held (R or W)"
	if write {
		goal = mk(SBool, "(= %s 2)", held.S)
		what = "write to " + strings.TrimPrefix(m.Prov.Key, "F:") + " requires " + g.Mutex.Name() + " held for writing"
	}
	c.addObl(fr, &Obligation{Label: g.Label, Kind: "guarded-access", Site: fmt.Sprintf("access@%s", fr.posShort(in.Pos())), Clause: what, Guard: reach, Goal: goal, Where: fr.posShort(in.Pos())})
}

func firstFrames() string {
	buf := make([]byte, 4096)
	n := runtime.Stack(buf, false)
	lines := strings.Split(string(buf[:n]), "\n")
	var out []string
	for _, l := range lines {
		l = strings.TrimSpace(l)
		if strings.HasPrefix(l, "/verif/govc/") {
			out = append(out, l)
		}
		if len(out) >= 5 {
			break
		}
	}
	return strings.Join(out, " < ")
}

func (fr *Frame) posShort(p token.Pos) string {
	pos := fr.fn.Prog.Fset.Position(p)
	f := pos.Filename
	if k := strings.LastIndex(f, "/"); k >= 0 {
		f = f[k+1:]
	}
	return fmt.Sprintf("%s:%d", f, pos.Line)
}

func (fr *Frame) execUnOp(i *ssa.UnOp, st *State, reach *Term) {
	c := fr.c
	x := fr.val(i.X)
	switch i.Op {
	case token.MUL:
		t := i.X.Type().Underlying().(*types.Pointer).Elem()
		// loads of immutable globals could be specialised here
		v, err := c.load(st, x, t)
		if err != nil {
			fr.unsupported(i.Pos(), "load: %v", err)
			fr.setVal(i, c.freshVal("load", i.Type()))
			return
		}
		for _, l := range leavesOf(v.Typ) {
			lv := v.at(l.path)
			lv.T = fr.named(i, lv.T)
			if lv.T.Sort == SV {
				c.assumeExisting(st, lv.T, reach)
			}
		}
		if x.Loc != nil && x.Loc.Kind == "field" && c.V.guards[x.Loc.Key] != nil {
			v.Prov = &Prov{Key: x.Loc.Key, Base: x.Loc.Base}
		}
		fr.setVal(i, v)
	case token.NOT:
		fr.setVal(i, scalar(tNot(x.T), i.Type()))
	case token.SUB:
		if x.T.Sort == SReal {
			fr.setVal(i, scalar(mk(SReal, "(- %s)", x.T.S), i.Type()))
		} else {
			fr.setVal(i, scalar(mk(SInt, "(- %s)", x.T.S), i.Type()))
		}
	case token.XOR:
		c.sc.declareFun("bitnot", []Sort{SInt}, SInt)
		fr.setVal(i, scalar(tApp(SInt, "bitnot", x.T), i.Type()))
	default:
		fr.unsupported(i.Pos(), "unary %s", i.Op)
		fr.setVal(i, c.freshVal("unop", i.Type()))
	}
}

func (fr *Frame) binop(at ssa.Instruction, op token.Token, x, y *Val, xt types.Type, rt types.Type) *Val {
	c := fr.c
	// comparison of composites
	if x.T == nil || y.T == nil {
		if (op == token.EQL || op == token.NEQ) && len(x.Fs) == len(y.Fs) && x.Loc == nil && y.Loc == nil {
			var parts []*Term
			for k := range x.Fs {
				parts = append(parts, fr.binop(at, token.EQL, x.Fs[k], y.Fs[k], x.Fs[k].Typ, types.Typ[types.Bool]).T)
			}
			e := tAnd(parts...)
			if op == token.NEQ {
				e = tNot(e)
			}
			return scalar(e, rt)
		}
		fr.unsupported(at.Pos(), "binop %s on non-scalar", op)
		return c.freshVal("binop", rt)
	}
	a, b := x.T, y.T
	srt := a.Sort
	if a.Sort != b.Sort {
		if a.Sort == SInt && b.Sort == SReal {
			a = c.coerce(a, SReal)
		} else if b.Sort == SInt && a.Sort == SReal {
			b = c.coerce(b, SReal)
		} else {
			fr.unsupported(at.Pos(), "binop %s on sorts %s,%s", op, a.Sort, b.Sort)
			return c.freshVal("binop", rt)
		}
		srt = SReal
	}
	switch op {
	case token.EQL:
		return scalar(tEq(a, b), rt)
	case token.NEQ:
		return scalar(tNot(tEq(a, b)), rt)
	}
	switch srt {
	case SInt, SReal:
		switch op {
		case token.ADD:
			return scalar(mk(srt, "(+ %s %s)", a.S, b.S), rt)
		case token.SUB:
			return scalar(mk(srt, "(- %s %s)", a.S, b.S), rt)
		case token.MUL:
			return scalar(mk(srt, "(* %s %s)", a.S, b.S), rt)
		case token.QUO:
			if srt == SReal {
				return scalar(mk(srt, "(/ %s %s)", a.S, b.S), rt)
			}
			c.sc.declareFun("godiv", []Sort{SInt, SInt}, SInt)
			c.sc.axiomOnce("(forall ((a Int) (b Int)) (! (=> (and (>= a 0) (> b 0)) (= (godiv a b) (div a b))) :pattern ((godiv a b))))")
			return scalar(tApp(SInt, "godiv", a, b), rt)
		case token.REM:
			c.sc.declareFun("gorem", []Sort{SInt, SInt}, SInt)
			c.sc.axiomOnce("(forall ((a Int) (b Int)) (! (=> (and (>= a 0) (> b 0)) (= (gorem a b) (mod a b))) :pattern ((gorem a b))))")
			return scalar(tApp(SInt, "gorem", a, b), rt)
		case token.LSS:
			return scalar(mk(SBool, "(< %s %s)", a.S, b.S), rt)
		case token.LEQ:
			return scalar(mk(SBool, "(<= %s %s)", a.S, b.S), rt)
		case token.GTR:
			return scalar(mk(SBool, "(> %s %s)", a.S, b.S), rt)
		case token.GEQ:
			return scalar(mk(SBool, "(>= %s %s)", a.S, b.S), rt)
		case token.AND, token.OR, token.XOR, token.SHL, token.SHR, token.AND_NOT:
			fname := map[token.Token]string{token.AND: "bitand", token.OR: "bitor", token.XOR: "bitxor", token.SHL: "shl", token.SHR: "shr", token.AND_NOT: "bitandnot"}[op]
			c.sc.declareFun(fname, []Sort{SInt, SInt}, SInt)
			fr.bitAxioms()
			return scalar(tApp(SInt, fname, a, b), rt)
		}
	case SBool:
		switch op {
		case token.AND, token.LAND:
			return scalar(tAnd(a, b), rt)
		case token.OR, token.LOR:
			return scalar(tOr(a, b), rt)
		}
	case SStr:
		switch op {
		case token.ADD:
			return scalar(tApp(SStr, "cat", a, b), rt)
		case token.LSS, token.LEQ, token.GTR, token.GEQ:
			c.sc.declareFun("str_lt", []Sort{SStr, SStr}, SBool)
			switch op {
			case token.LSS:
				return scalar(tApp(SBool, "str_lt", a, b), rt)
			case token.GTR:
				return scalar(tApp(SBool, "str_lt", b, a), rt)
			case token.LEQ:
				return scalar(tNot(tApp(SBool, "str_lt", b, a)), rt)
			case token.GEQ:
				return scalar(tNot(tApp(SBool, "str_lt", a, b)), rt)
			}
		}
	}
	fr.unsupported(at.Pos(), "binop %s on sort %s", op, srt)
	return c.freshVal("binop", rt)
}

// bitAxioms: minimal facts about single-bit flag sets (used by jwt.ValidationError).
func (fr *Frame) bitAxioms() {
	c := fr.c
	c.sc.declareFun("bitand", []Sort{SInt, SInt}, SInt)
	c.sc.declareFun("bitor", []Sort{SInt, SInt}, SInt)
	c.sc.axiomOnce("(forall ((a Int)) (! (= (bitand a 0) 0) :pattern ((bitand a 0))))")
	c.sc.axiomOnce("(forall ((a Int)) (! (= (bitand 0 a) 0) :pattern ((bitand 0 a))))")
	c.sc.axiomOnce("(forall ((a Int)) (! (= (bitor a 0) a) :pattern ((bitor a 0))))")
	c.sc.axiomOnce("(forall ((a Int)) (! (= (bitor 0 a) a) :pattern ((bitor 0 a))))")
	c.sc.axiomOnce("(forall ((a Int) (b Int)) (! (=> (and (>= a 0) (>= b 0)) (and (>= (bitor a b) a) (>= (bitor a b) b))) :pattern ((bitor a b))))")
	c.sc.axiomOnce("(forall ((a Int) (b Int)) (! (=> (and (>= a 0) (>= b 0)) (and (>= (bitand a b) 0) (<= (bitand a b) a) (<= (bitand a b) b))) :pattern ((bitand a b))))")
}

func (fr *Frame) convert(at ssa.Instruction, x *Val, from, to types.Type) *Val {
	c := fr.c
	fs, ok1 := sortOf(from)
	ts, ok2 := sortOf(to)
	if !ok1 || !ok2 {
		fr.unsupported(at.Pos(), "convert %s -> %s", from, to)
		return c.freshVal("conv", to)
	}
	switch {
	case fs == ts:
		return &Val{T: x.T, Typ: to, Clo: x.Clo}
	case fs == SStr && ts == SSl:
		c.sc.declareFun("s2b", []Sort{SStr}, SSl)
		c.sc.declareFun("b2s", []Sort{SSl}, SStr)
		c.sc.axiomOnce("(forall ((s Str)) (! (and (= (b2s (s2b s)) s) (= (slen (s2b s)) (len_s s))) :pattern ((s2b s))))")
		return scalar(tApp(SSl, "s2b", x.T), to)
	case fs == SSl && ts == SStr:
		if et := elemType(from); et != nil {
			if b, ok := et.Underlying().(*types.Basic); ok && b.Kind() != types.Uint8 {
				// []rune -> string: at least one byte per rune
				c.sc.declareFun("r2s", []Sort{SSl}, SStr)
				c.sc.axiomOnce("(forall ((b Sl)) (! (>= (len_s (r2s b)) (slen b)) :pattern ((r2s b))))")
				return scalar(tApp(SStr, "r2s", x.T), to)
			}
		}
		c.sc.declareFun("s2b", []Sort{SStr}, SSl)
		c.sc.declareFun("b2s", []Sort{SSl}, SStr)
		c.sc.axiomOnce("(forall ((b Sl)) (! (= (len_s (b2s b)) (slen b)) :pattern ((b2s b))))")
		return scalar(tApp(SStr, "b2s", x.T), to)
	case fs == SInt && ts == SReal:
		return scalar(mk(SReal, "(to_real %s)", x.T.S), to)
	case fs == SReal && ts == SInt:
		// Go truncates toward zero (overflow is not modelled: integers are mathematical)
		return scalar(mk(SInt, "(ite (>= %s 0.0) (to_int %s) (- (to_int (- %s))))", x.T.S, x.T.S, x.T.S), to)
	case fs == SInt && ts == SStr:
		c.sc.declareFun("rune2s", []Sort{SInt}, SStr)
		return scalar(tApp(SStr, "rune2s", x.T), to)
	}
	fr.unsupported(at.Pos(), "convert %s -> %s", from, to)
	return c.freshVal("conv", to)
}

func (fr *Frame) boxFun(t types.Type, s Sort) (string, string) {
	c := fr.c
	k := typeKey(t)
	b := smtName("box_" + k)
	u := smtName("unbox_" + k)
	if !c.sc.declSeen[b] {
		c.sc.declareFun(b, []Sort{s}, SV)
		c.sc.declareFun(u, []Sort{SV}, s)
		id := c.typeID(t)
		c.sc.axiomOnce(fmt.Sprintf("(forall ((x %s)) (! (and (= (%s (%s x)) x) (= (dyntype (%s x)) %s) (not (= (%s x) null)) (< (birth (%s x)) 0)) :pattern ((%s x))))", s, u, b, b, id.S, b, b, b))
	}
	return b, u
}

func (fr *Frame) makeInterface(at ssa.Instruction, x *Val, from types.Type, st *State, reach *Term) *Val {
	c := fr.c
	s, ok := sortOf(from)
	if ok && s == SV {
		// pointers, maps, funcs: the interface value is the reference itself
		if _, isPtr := from.Underlying().(*types.Pointer); isPtr && x.T != nil {
			c.sc.assert(tImp(tAnd(reach, tNot(tEq(x.T, tNull))), tEq(tApp(SInt, "dyntype", x.T), c.typeID(from))))
		}
		if _, isMap := from.Underlying().(*types.Map); isMap && x.T != nil {
			c.sc.assert(tImp(tAnd(reach, tNot(tEq(x.T, tNull))), tEq(tApp(SInt, "dyntype", x.T), c.typeID(from))))
		}
		return &Val{T: x.T, Typ: at.(ssa.Value).Type(), Clo: x.Clo, Boxed: from}
	}
	if ok {
		b, _ := fr.boxFun(from, s)
		return &Val{T: tApp(SV, b, x.T), Typ: at.(ssa.Value).Type(), Boxed: from}
	}
	// struct value in an interface: a fresh object holding a copy
	r := c.alloc(st, fr.fn.Name()+"_boxed", reach)
	c.sc.assert(tImp(reach, tEq(tApp(SInt, "dyntype", r), c.typeID(from))))
	c.storeObj(st, r, from, x)
	return &Val{T: r, Typ: at.(ssa.Value).Type(), Boxed: types.NewPointer(from)}
}

func (fr *Frame) execTypeAssert(i *ssa.TypeAssert, st *State, reach *Term) {
	c := fr.c
	x := fr.val(i.X)
	var ok *Term
	var v *Val
	at := i.AssertedType
	if _, isIface := at.Underlying().(*types.Interface); isIface {
		if types.IsInterface(i.X.Type()) && types.AssignableTo(i.X.Type(), at) {
			ok = tNot(tEq(x.T, tNull))
		} else {
			c.sc.declareFun("implements", []Sort{SInt, SInt}, SBool)
			ok = tAnd(tNot(tEq(x.T, tNull)), tApp(SBool, "implements", tApp(SInt, "dyntype", x.T), c.typeID(at)))
			ok = fr.named(i, ok)
		}
		v = &Val{T: x.T, Typ: at}
	} else {
		ok = tAnd(tNot(tEq(x.T, tNull)), tEq(tApp(SInt, "dyntype", x.T), c.typeID(at)))
		s, isScalar := sortOf(at)
		switch {
		case isScalar && s == SV:
			v = &Val{T: x.T, Typ: at}
		case isScalar:
			_, u := fr.boxFun(at, s)
			v = scalar(tApp(s, u, x.T), at)
		default:
			v = c.loadObj(st, x.T, at)
		}
	}
	if i.CommaOk {
		// value is the zero value when !ok
		if v.T != nil {
			v = scalar(tIte(ok, v.T, c.zeroTerm(v.T.Sort)), at)
		}
		fr.setVal(i, &Val{Typ: i.Type(), Fs: []*Val{v, scalar(ok, types.Typ[types.Bool])}})
		return
	}
	widening := false
	if _, isIface := at.Underlying().(*types.Interface); isIface && types.IsInterface(i.X.Type()) && types.AssignableTo(i.X.Type(), at) {
		widening = true // fails only for a nil interface value: nil dereferences are outside the swept operations
	}
	if !widening {
		c.addObl(fr, &Obligation{Kind: "safety", Site: fmt.Sprintf("typeassert@%s", fr.posShort(i.Pos())), Clause: "type assertion cannot panic: " + i.String(),
			Guard: reach, Goal: ok})
	}
	c.sc.assert(tImp(reach, ok))
	fr.setVal(i, v)
}

func (fr *Frame) execSlice(i *ssa.Slice, st *State, reach *Term) {
	c := fr.c
	x := fr.val(i.X)
	var lo, hi *Term
	if i.Low != nil {
		lo = fr.val(i.Low).T
	} else {
		lo = intLit(0)
	}
	switch xt := i.X.Type().Underlying().(type) {
	case *types.Basic: // string
		if i.High != nil {
			hi = fr.val(i.High).T
		} else {
			hi = tApp(SInt, "len_s", x.T)
		}
		c.addObl(fr, &Obligation{Kind: "safety", Site: fmt.Sprintf("slice@%s", fr.posShort(i.Pos())), Clause: "string slice bounds in range",
			Guard: reach, Goal: mk(SBool, "(and (<= 0 %s) (<= %s %s) (<= %s (len_s %s)))", lo.S, lo.S, hi.S, hi.S, x.T.S)})
		fr.setVal(i, scalar(fr.substr(x.T, lo, hi), i.Type()))
	case *types.Slice:
		if i.High != nil {
			hi = fr.val(i.High).T
		} else {
			hi = tApp(SInt, "slen", x.T)
		}
		if i.Low == nil && i.High == nil {
			fr.setVal(i, &Val{T: x.T, Typ: i.Type()})
			return
		}
		c.addObl(fr, &Obligation{Kind: "safety", Site: fmt.Sprintf("slice@%s", fr.posShort(i.Pos())), Clause: "slice bounds in range",
			Guard: reach, Goal: mk(SBool, "(and (<= 0 %s) (<= %s %s))", lo.S, lo.S, hi.S)})
		fr.setVal(i, scalar(c.subSlice(x.T, lo, hi, xt.Elem()), i.Type()))
	case *types.Pointer: // *array
		arr := xt.Elem()
		v := c.arraySnapshot(st, x.T, arr)
		a := arr.Underlying().(*types.Array)
		if i.Low == nil && i.High == nil {
			out := &Val{T: v.T, Typ: i.Type()}
			if _, isAlloc := i.X.(*ssa.Alloc); isAlloc {
				out.ArrRef = x.T
				out.ArrT = arr
			}
			fr.setVal(i, out)
			return
		}
		if i.High != nil {
			hi = fr.val(i.High).T
		} else {
			hi = intLit(a.Len())
		}
		n := c.sc.freshConst(fr.fn.Name()+"_"+i.Name(), SSl)
		c.sc.assert(tImp(reach, tEq(tApp(SInt, "slen", n), mk(SInt, "(- %s %s)", hi.S, lo.S))))
		if es, ok := sortOf(a.Elem()); ok {
			at := atFun(c, es)
			c.sc.assert(mk(SBool, "(forall ((i Int)) (! (=> (and (<= 0 i) (< i (- %s %s))) (= (%s %s i) (%s %s (+ %s i)))) :pattern ((%s %s i))))",
				hi.S, lo.S, at, n.S, at, v.T.S, lo.S, at, n.S))
		}
		fr.setVal(i, scalar(n, i.Type()))
	default:
		fr.unsupported(i.Pos(), "slice of %s", i.X.Type())
		fr.setVal(i, c.freshVal("slice", i.Type()))
	}
}

func (fr *Frame) substr(s, lo, hi *Term) *Term {
	c := fr.c
	c.sc.declareFun("substr", []Sort{SStr, SInt, SInt}, SStr)
	c.sc.axiomOnce("(forall ((s Str) (a Int) (b Int)) (! (=> (and (<= 0 a) (<= a b) (<= b (len_s s))) (= (len_s (substr s a b)) (- b a))) :pattern ((substr s a b))))")
	c.sc.axiomOnce("(forall ((s Str)) (! (= (substr s 0 (len_s s)) s) :pattern ((substr s 0 (len_s s)))))")
	return tApp(SStr, "substr", s, lo, hi)
}

// execNext models iteration over a map with a ghost "visited" set (see loops).
func (fr *Frame) execNext(i *ssa.Next, st *State, reach *Term) {
	c := fr.c
	rs := fr.rangeIt[i.Iter]
	if rs == nil || i.IsString {
		fr.unsupported(i.Pos(), "range over string / unknown iterator")
		fr.setVal(i, c.freshVal("next", i.Type()))
		return
	}
	mt := rs.typ
	mi, err := c.mapInfo(mt)
	if err != nil {
		fr.unsupported(i.Pos(), "range: %v", err)
		fr.setVal(i, c.freshVal("next", i.Type()))
		return
	}
	// nondeterministic next key: an unvisited key of the map as it is now; exhausted when every key has been visited
	m := mt.Underlying().(*types.Map)
	ok := c.sc.freshConst(fr.fn.Name()+"_rng_ok", SBool)
	k := c.sc.freshConst(fr.fn.Name()+"_rng_k", mi.ksort)
	dom := tSelect(c.get(st, mi.dom, mi.domSort), rs.x.T)
	vs := ArrSort(mi.ksort, SBool)
	vis := c.get(st, rs.key, vs)
	c.sc.assert(tImp(tAnd(reach, ok), tAnd(tNot(tEq(rs.x.T, tNull)), tSelect(dom, k), tNot(tSelect(vis, k)))))
	c.sc.assert(tImp(tAnd(reach, tNot(ok), tNot(tEq(rs.x.T, tNull))), mk(SBool, "(forall ((x %s)) (! (=> (select %s x) (select %s x)) :pattern ((select %s x))))", mi.ksort, dom.S, vis.S, dom.S)))
	c.set(st, rs.key, tIte(ok, tStore(vis, k, tTrue), vis))
	v := buildVal(m.Elem(), func(l leaf) *Term {
		key, ks := c.mapValKey(mt, l)
		return fr.named(i, tSelect(tSelect(c.get(st, key, ks), rs.x.T), k))
	})
	fr.setVal(i, &Val{Typ: i.Type(), Fs: []*Val{scalar(ok, types.Typ[types.Bool]), scalar(k, m.Key()), v}})
}

// subSlice is s[lo:hi] as a function of its operands (so that code and contracts denote the same value).
func (c *Ctx) subSlice(s, lo, hi *Term, elem types.Type) *Term {
	c.sc.declareFun("subsl", []Sort{SSl, SInt, SInt}, SSl)
	c.sc.axiomOnce("(forall ((s Sl) (a Int) (b Int)) (! (=> (and (<= 0 a) (<= a b)) (= (slen (subsl s a b)) (- b a))) :pattern ((subsl s a b))))")
	if es, ok := sortOf(elem); ok {
		at := atFun(c, es)
		c.sc.axiomOnce(fmt.Sprintf("(forall ((s Sl) (a Int) (b Int) (i Int)) (! (=> (and (<= 0 i) (< i (- b a))) (= (%s (subsl s a b) i) (%s s (+ a i)))) :pattern ((%s (subsl s a b) i))))", at, at, at))
	}
	return tApp(SSl, "subsl", s, lo, hi)
}
