package main

// ReplayRecord is what a VIOLATION line points at.
type ReplayRecord struct {
	Property   string            `json:"property"`
	Obligation string            `json:"obligation"`
	Function   string            `json:"function"`
	Kind       string            `json:"kind"`
	Clause     string            `json:"clause"`
	ClausePos  string            `json:"clause_pos"`
	Where      string            `json:"site_position,omitempty"`
	Solver     string            `json:"solver"`
	Status     string            `json:"solver_status"`
	Output     string            `json:"solver_output"`
	Model      map[string]string `json:"model,omitempty"`
	Replayed   bool              `json:"replayed_on_real_code"`
	ReplayLog  string            `json:"replay_log,omitempty"`
}

func buildReplay(v *Verifier, prop string, o *Obligation) *ReplayRecord {
	r := &ReplayRecord{Property: prop, Obligation: o.Name, Function: o.Func, Kind: o.Kind, Clause: o.Clause, ClausePos: o.Pos, Where: o.Where,
		Solver: o.Res.Solver, Status: o.Res.Status, Output: trunc(o.Res.Output, 4000)}
	return r
}
