package main

import (
	"fmt"
	"go/ast"
	"go/constant"
	"go/token"
	"go/types"
	"sort"
	"strings"

	"golang.org/x/tools/go/ssa"
)

// Sentinel error variables of package fosite: facts are read off their initialisers in the
// current source (so a change of an error's code or name is picked up), under the assumption
// that the variables are never reassigned - which is checked over the SSA of the repo.

// constSlice is a package-level []string variable initialised with a literal and never reassigned.
type constSlice struct {
	pkg   *types.Package
	name  string
	elems []string
}

type sentinel struct {
	pkg    *types.Package
	name   string
	rfc    bool // &RFC6749Error{...}
	fields map[string]constant.Value
}

func (v *Verifier) collectConstSlices() {
	for _, p := range v.pkgs {
		if p.Types == nil || !strings.HasPrefix(p.Types.Path(), repoModule) {
			continue
		}
		for _, f := range p.Syntax {
			for _, d := range f.Decls {
				gd, ok := d.(*ast.GenDecl)
				if !ok || gd.Tok != token.VAR {
					continue
				}
				for _, sp := range gd.Specs {
					vs := sp.(*ast.ValueSpec)
					for i, n := range vs.Names {
						if i >= len(vs.Values) {
							continue
						}
						cl, ok := vs.Values[i].(*ast.CompositeLit)
						if !ok {
							continue
						}
						obj := p.Types.Scope().Lookup(n.Name)
						if obj == nil {
							continue
						}
						sl, ok := obj.Type().Underlying().(*types.Slice)
						if !ok {
							continue
						}
						if b, ok := sl.Elem().Underlying().(*types.Basic); !ok || b.Info()&types.IsString == 0 {
							continue
						}
						var elems []string
						good := true
						for _, el := range cl.Elts {
							tv, ok := p.TypesInfo.Types[el]
							if !ok || tv.Value == nil || tv.Value.Kind() != constant.String {
								good = false
								break
							}
							elems = append(elems, constant.StringVal(tv.Value))
						}
						if good {
							v.constSlices = append(v.constSlices, &constSlice{p.Types, n.Name, elems})
						}
					}
				}
			}
		}
	}
}

func (v *Verifier) collectSentinels() {
	v.collectConstSlices()
	var root *types.Package
	for _, p := range v.pkgs {
		if p.Types != nil && p.Types.Path() == repoModule {
			root = p.Types
		}
		if p.Types != nil && strings.HasPrefix(p.Types.Path(), repoModule) {
			for _, f := range p.Syntax {
				for _, d := range f.Decls {
					gd, ok := d.(*ast.GenDecl)
					if !ok || gd.Tok != token.VAR {
						continue
					}
					for _, sp := range gd.Specs {
						vs := sp.(*ast.ValueSpec)
						for i, n := range vs.Names {
							if i >= len(vs.Values) || !strings.HasPrefix(n.Name, "Err") {
								continue
							}
							s := &sentinel{pkg: p.Types, name: n.Name, fields: map[string]constant.Value{}}
							switch e := vs.Values[i].(type) {
							case *ast.UnaryExpr:
								cl, ok := e.X.(*ast.CompositeLit)
								if !ok || e.Op != token.AND {
									continue
								}
								if id, ok := cl.Type.(*ast.Ident); !ok || id.Name != "RFC6749Error" {
									continue
								}
								s.rfc = true
								for _, el := range cl.Elts {
									kv, ok := el.(*ast.KeyValueExpr)
									if !ok {
										continue
									}
									k, ok := kv.Key.(*ast.Ident)
									if !ok {
										continue
									}
									if tv, ok := p.TypesInfo.Types[kv.Value]; ok && tv.Value != nil {
										s.fields[k.Name] = tv.Value
									}
								}
							case *ast.CallExpr:
								// stderr.New("...")
								if sel, ok := e.Fun.(*ast.SelectorExpr); !ok || sel.Sel.Name != "New" {
									continue
								}
							default:
								continue
							}
							v.sentinels = append(v.sentinels, s)
						}
					}
				}
			}
		}
	}
	sort.Slice(v.sentinels, func(i, j int) bool {
		if v.sentinels[i].pkg.Path() != v.sentinels[j].pkg.Path() {
			return v.sentinels[i].pkg.Path() < v.sentinels[j].pkg.Path()
		}
		return v.sentinels[i].name < v.sentinels[j].name
	})
	if root == nil {
		return
	}
	// reassignment check
	reassigned := map[string]bool{}
	for _, sp := range v.ssaPkgs {
		for _, m := range sp.Members {
			fn, ok := m.(*ssa.Function)
			if !ok {
				continue
			}
			v.scanStores(fn, reassigned)
		}
		for _, m := range sp.Members {
			if t, ok := m.(*ssa.Type); ok {
				for _, recv := range []types.Type{t.Type(), types.NewPointer(t.Type())} {
					ms := v.prog.MethodSets.MethodSet(recv)
					for i := 0; i < ms.Len(); i++ {
						if fn := v.prog.MethodValue(ms.At(i)); fn != nil && fn.Pkg == sp {
							v.scanStores(fn, reassigned)
						}
					}
				}
			}
		}
	}
	var keptCS []*constSlice
	for _, cs := range v.constSlices {
		if reassigned[cs.pkg.Path()+"."+cs.name] {
			continue
		}
		keptCS = append(keptCS, cs)
	}
	v.constSlices = keptCS
	var kept []*sentinel
	for _, s := range v.sentinels {
		if reassigned[s.pkg.Path()+"."+s.name] {
			v.loadNotes = append(v.loadNotes, "sentinel "+s.name+" is reassigned somewhere: no facts assumed about it")
			continue
		}
		kept = append(kept, s)
	}
	v.sentinels = kept
}

func (v *Verifier) scanStores(fn *ssa.Function, out map[string]bool) {
	if fn.Name() == "init" || strings.HasPrefix(fn.Name(), "init#") {
		return
	}
	for _, b := range fn.Blocks {
		for _, in := range b.Instrs {
			if st, ok := in.(*ssa.Store); ok {
				if g, ok := st.Addr.(*ssa.Global); ok {
					if g.Pkg.Pkg.Path() == repoModule {
						out[g.Name()] = true
					}
					out[g.Pkg.Pkg.Path()+"."+g.Name()] = true
				}
			}
		}
	}
	for _, a := range fn.AnonFuncs {
		v.scanStores(a, out)
	}
}

// assumeSentinels asserts the facts in the given state.
func (v *Verifier) assumeSentinels(c *Ctx, st *State, guard *Term) {
	root := v.allTypes[repoModule]
	if root == nil {
		return
	}
	rfcT := v.namedType(repoModule, "RFC6749Error")
	if rfcT == nil {
		return
	}
	stt := rfcT.Underlying().(*types.Struct)
	fieldOf := func(name string) *types.Var {
		for i := 0; i < stt.NumFields(); i++ {
			if stt.Field(i).Name() == name {
				return stt.Field(i)
			}
		}
		return nil
	}
	c.sc.declareFun("eis", []Sort{SV, SV}, SBool)
	c.sc.declareFun("ehead", []Sort{SV}, SV)
	var plain []*Term
	for _, s := range v.sentinels {
		obj := s.pkg.Scope().Lookup(s.name)
		if obj == nil {
			continue
		}
		if _, isVar := obj.(*types.Var); !isVar {
			continue
		}
		gname := smtName("glob_" + s.pkg.Path() + "." + s.name)
		c.sc.declareConst(gname, SV)
		ptr := c.loadObj(st, &Term{gname, SV}, obj.Type()).T
		facts := []*Term{mk(SBool, "(and (not (= %s null)) (< (birth %s) 0))", gname, gname), tNot(tEq(ptr, tNull)), mk(SBool, "(< (birth %s) 0)", ptr.S)}
		if s.rfc {
			facts = append(facts, tEq(tApp(SInt, "dyntype", ptr), c.typeID(types.NewPointer(rfcT))))
			facts = append(facts, tEq(tApp(SV, "ehead", ptr), ptr))
			for _, fn := range []string{"ErrorField", "DescriptionField", "HintField", "DebugField"} {
				f := fieldOf(fn)
				val := c.sc.strLit("")
				if cv, ok := s.fields[fn]; ok && cv.Kind() == constant.String {
					val = c.sc.strLit(constant.StringVal(cv))
				}
				facts = append(facts, tEq(c.loadField(st, ptr, rfcT, f).T, val))
			}
			code := int64(0)
			if cv, ok := s.fields["CodeField"]; ok {
				code, _ = constant.Int64Val(constant.ToInt(cv))
			}
			facts = append(facts, tEq(c.loadField(st, ptr, rfcT, fieldOf("CodeField")).T, intLit(code)))
			facts = append(facts, tEq(c.loadField(st, ptr, rfcT, fieldOf("cause")).T, tNull))
			facts = append(facts, tNot(c.loadField(st, ptr, rfcT, fieldOf("exposeDebug")).T))
			facts = append(facts, tNot(c.loadField(st, ptr, rfcT, fieldOf("useLegacyFormat")).T))
			// errors.Is on a sentinel without cause: same class (ErrorField, CodeField)
			ef := c.get(st, fieldKey(rfcT, fieldOf("ErrorField")), ArrSort(SV, SStr))
			cf := c.get(st, fieldKey(rfcT, fieldOf("CodeField")), ArrSort(SV, SInt))
			facts = append(facts, mk(SBool, "(forall ((t V)) (! (= (eis %s t) (and (not (= t null)) (= (dyntype t) %s) (= (select %s %s) (select %s t)) (= (select %s %s) (select %s t)))) :pattern ((eis %s t))))",
				ptr.S, c.typeID(types.NewPointer(rfcT)).S, ef.S, ptr.S, ef.S, cf.S, ptr.S, cf.S, ptr.S))
		} else {
			plain = append(plain, ptr)
			facts = append(facts, mk(SBool, "(forall ((t V)) (! (= (eis %s t) (= t %s)) :pattern ((eis %s t))))", ptr.S, ptr.S, ptr.S))
			facts = append(facts, tNot(tEq(tApp(SInt, "dyntype", ptr), c.typeID(types.NewPointer(rfcT)))))
		}
		c.sc.gaxioms = append(c.sc.gaxioms, tImp(guard, tAnd(facts...)).S)
		_ = fmt.Sprint
	}
	for _, cs := range v.constSlices {
		obj := cs.pkg.Scope().Lookup(cs.name)
		if obj == nil {
			continue
		}
		gname := smtName("glob_" + cs.pkg.Path() + "." + cs.name)
		c.sc.declareConst(gname, SV)
		val := c.loadObj(st, &Term{gname, SV}, obj.Type()).T
		var elems []*Term
		for _, e := range cs.elems {
			elems = append(elems, c.sc.strLit(e))
		}
		c.sc.gaxioms = append(c.sc.gaxioms, tImp(guard, tEq(val, c.mkSlice(SStr, elems))).S)
	}
	if len(plain) > 1 {
		parts := make([]string, len(plain))
		for i, p := range plain {
			parts[i] = p.S
		}
		c.sc.gaxioms = append(c.sc.gaxioms, tImp(guard, mk(SBool, "(distinct %s)", strings.Join(parts, " "))).S)
	}
}
