package main

import (
	"go/types"

	"golang.org/x/tools/go/ssa"
)

// nativeModel implements the few library functions whose semantics are built into the
// engine rather than written as a .spec contract.
func (fr *Frame) nativeModel(instr ssa.Instruction, full string, callee *ssa.Function, args []*Val, st *State, reach *Term, rt types.Type) (*Val, bool) {
	c := fr.c
	switch full {
	case "time.Now":
		// a fresh instant, not before any instant observed earlier in this execution
		prev := c.get(st, "G:$now", SInt)
		n := c.sc.freshConst("now", SInt)
		c.sc.assert(tImp(reach, mk(SBool, "(>= %s %s)", n.S, prev.S)))
		c.sc.assert(tImp(reach, mk(SBool, "(> %s 0)", n.S)))
		c.set(st, "G:$now", n)
		calls := c.get(st, "G:$nowcalls", SInt)
		c.set(st, "G:$nowcalls", mk(SInt, "(+ %s 1)", calls.S))
		return scalar(n, rt), true
	case "(time.Time).UTC", "(time.Time).Local":
		return &Val{T: args[0].T, Typ: rt}, true
	case "(net/url.Values).Del", "(net/http.Header).Del":
		mt := callee.Signature.Recv().Type()
		if err := c.mapDelete(st, args[0].T, mt, args[1].T); err != nil {
			return nil, false
		}
		return &Val{Typ: rt}, true
	case "(net/url.Values).Set":
		mt := callee.Signature.Recv().Type()
		v := scalar(c.mkSlice(SStr, []*Term{args[2].T}), types.NewSlice(types.Typ[types.String]))
		if err := c.mapUpdate(st, args[0].T, mt, args[1].T, v); err != nil {
			return nil, false
		}
		return &Val{Typ: rt}, true
	case "(net/url.Values).Add":
		mt := callee.Signature.Recv().Type()
		old, _, err := c.mapLookup(st, args[0].T, mt, args[1].T)
		if err != nil {
			return nil, false
		}
		n := c.sc.freshConst("vals_add", SSl)
		at := atFun(c, SStr)
		c.sc.assert(tImp(reach, mk(SBool, "(and (= (slen %s) (+ (slen %s) 1)) (= (%s %s (slen %s)) %s) (forall ((i Int)) (! (=> (and (<= 0 i) (< i (slen %s))) (= (%s %s i) (%s %s i))) :pattern ((%s %s i)))))",
			n.S, old.T.S, at, n.S, old.T.S, args[2].T.S, old.T.S, at, n.S, at, old.T.S, at, n.S)))
		if err := c.mapUpdate(st, args[0].T, mt, args[1].T, scalar(n, types.NewSlice(types.Typ[types.String]))); err != nil {
			return nil, false
		}
		return &Val{Typ: rt}, true
	}
	return nil, false
}
