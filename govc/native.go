package main

import (
	"go/types"
	"strings"

	"golang.org/x/tools/go/ssa"
)

// nativeModel implements the few library functions whose semantics are built into the
// engine rather than written as a .spec contract.
func (fr *Frame) nativeModel(instr ssa.Instruction, full string, callee *ssa.Function, args []*Val, st *State, reach *Term, rt types.Type) (*Val, bool) {
	c := fr.c
	switch full {
	case "time.Now":
		// a fresh instant, not before any instant observed earlier in this execution
		prev := c.get(st, "G:$now", SInt)
		n := c.sc.freshConst("now", SInt)
		c.sc.assert(tImp(reach, mk(SBool, "(>= %s %s)", n.S, prev.S)))
		c.sc.assert(tImp(reach, mk(SBool, "(> %s 0)", n.S)))
		c.set(st, "G:$now", n)
		calls := c.get(st, "G:$nowcalls", SInt)
		c.set(st, "G:$nowcalls", mk(SInt, "(+ %s 1)", calls.S))
		return scalar(n, rt), true
	case "errors.As", "github.com/pkg/errors.As":
		// errors.As(err, &target): on success the target cell holds a non-nil value of the target's type found in
		// err's chain (for *fosite.RFC6749Error: ehead(err)); on failure the cell is unchanged.
		a := args[1]
		if a.Boxed == nil {
			return nil, false
		}
		pt, ok := a.Boxed.Underlying().(*types.Pointer)
		if !ok {
			return nil, false
		}
		elem := pt.Elem()
		es, ok := sortOf(elem)
		if !ok || es != SV {
			return nil, false
		}
		key := "P:" + typeKey(elem)
		cur := c.get(st, key, ArrSort(SV, SV))
		found := c.sc.freshConst("as_found", SV)
		r := c.sc.freshConst("as_ok", SBool)
		facts := []*Term{tImp(r, tAnd(tNot(tEq(found, tNull)), tEq(tApp(SInt, "dyntype", found), c.typeID(elem)), mk(SBool, "(< (birth %s) %s)", found.S, c.clk(st).S))),
			tImp(tEq(args[0].T, tNull), tNot(r))}
		if strings.HasSuffix(typeKey(elem), "fosite.RFC6749Error") {
			c.sc.declareFun("ehead", []Sort{SV}, SV)
			facts = append(facts, tEq(r, tNot(tEq(tApp(SV, "ehead", args[0].T), tNull))), tImp(r, tEq(found, tApp(SV, "ehead", args[0].T))))
		}
		c.sc.assert(tImp(reach, tAnd(facts...)))
		c.set(st, key, tStore(cur, a.T, tIte(r, found, tSelect(cur, a.T))))
		return scalar(r, rt), true
	case "(time.Time).UTC", "(time.Time).Local":
		return &Val{T: args[0].T, Typ: rt}, true
	case "encoding/json.Marshal":
		// the encoding of a value is an uninterpreted function of its type and scalar fields; values with a
		// MarshalJSON method of this repository are encoded by calling it (as encoding/json does)
		a := args[0]
		if a.Boxed == nil {
			c.sc.declareFun("jsonenc_any", []Sort{SV}, SSl)
			errv := c.freshVal("json_err", types.Universe.Lookup("error").Type())
			res := tIte(tEq(errv.T, tNull), tApp(SSl, "jsonenc_any", a.T), &Term{"nilsl", SSl})
			return &Val{Typ: rt, Fs: []*Val{scalar(res, types.NewSlice(types.Typ[types.Byte])), errv}}, true
		}
		if m := fr.marshalJSONMethod(a.Boxed); m != nil {
			recv := a
			if _, isPtr := a.Boxed.Underlying().(*types.Pointer); isPtr && m.Signature.Recv() != nil {
				if _, wantPtr := m.Signature.Recv().Type().Underlying().(*types.Pointer); !wantPtr {
					recv = c.loadObj(st, a.T, a.Boxed.Underlying().(*types.Pointer).Elem())
				}
			}
			return fr.callStatic(instr, m, nil, m.Signature, []*Val{recv}, st, reach, rt), true
		}
		anyEnc := func() (*Val, bool) {
			c.sc.declareFun("jsonenc_any", []Sort{SV}, SSl)
			errv := c.freshVal("json_err", types.Universe.Lookup("error").Type())
			res := tIte(tEq(errv.T, tNull), tApp(SSl, "jsonenc_any", a.T), &Term{"nilsl", SSl})
			return &Val{Typ: rt, Fs: []*Val{scalar(res, types.NewSlice(types.Typ[types.Byte])), errv}}, true
		}
		if mt, isMap := a.Boxed.Underlying().(*types.Map); isMap {
			if mi, err := c.mapInfo(a.Boxed); err == nil {
				if ls := leavesOf(mt.Elem()); len(ls) == 1 {
					_, dinner, _ := arrParts(mi.domSort)
					key, ks := c.mapValKey(a.Boxed, ls[0])
					_, vinner, _ := arrParts(ks)
					fn := "jsonenc_map_" + sortName(vinner)
					c.sc.declareFun(fn, []Sort{dinner, vinner}, SSl)
					errv := c.freshVal("json_err", types.Universe.Lookup("error").Type())
					enc := tApp(SSl, fn, tSelect(c.get(st, mi.dom, mi.domSort), a.T), tSelect(c.get(st, key, ks), a.T))
					res := tIte(tEq(errv.T, tNull), enc, &Term{"nilsl", SSl})
					return &Val{Typ: rt, Fs: []*Val{scalar(res, types.NewSlice(types.Typ[types.Byte])), errv}}, true
				}
			}
		}
		pt, isPtr := a.Boxed.Underlying().(*types.Pointer)
		if !isPtr {
			return anyEnc()
		}
		if _, isStruct := pt.Elem().Underlying().(*types.Struct); !isStruct {
			return anyEnc()
		}
		obj := c.loadObj(st, a.T, pt.Elem())
		var sorts []Sort
		var ts []*Term
		for _, l := range leavesOf(pt.Elem()) {
			sorts = append(sorts, l.sort)
			ts = append(ts, obj.at(l.path).T)
		}
		fn := smtName("jsonenc_" + typeKey(pt.Elem()))
		c.sc.declareFun(fn, sorts, SSl)
		errv := c.freshVal("json_err", types.Universe.Lookup("error").Type())
		res := tIte(tEq(errv.T, tNull), tApp(SSl, fn, ts...), &Term{"nilsl", SSl})
		return &Val{Typ: rt, Fs: []*Val{scalar(res, types.NewSlice(types.Typ[types.Byte])), errv}}, true
	case "encoding/json.NewEncoder":
		// the encoder remembers its writer (ghost enc_w)
		e := c.alloc(st, "json_encoder", reach)
		k := "G:enc_w"
		cur := c.get(st, k, ArrSort(SV, SV))
		c.set(st, k, tStore(cur, e, args[0].T))
		return scalar(e, rt), true
	case "(*encoding/json.Encoder).Encode":
		// Encode writes the JSON encoding of the value (plus a newline) to the encoder's writer
		sub, ok := fr.nativeModel(instr, "encoding/json.Marshal", callee, args[1:], st, reach, types.NewTuple(types.NewVar(0, nil, "", types.NewSlice(types.Typ[types.Byte])), types.NewVar(0, nil, "", types.Universe.Lookup("error").Type())))
		if !ok {
			return nil, false
		}
		w := tSelect(c.get(st, "G:enc_w", ArrSort(SV, SV)), args[0].T)
		body := c.get(st, "G:rw_body", ArrSort(SV, SSl))
		writes := c.get(st, "G:rw_writes", ArrSort(SV, SInt))
		errT := sub.Fs[1].T
		c.set(st, "G:rw_body", tIte(tEq(errT, tNull), tStore(body, w, sub.Fs[0].T), body))
		c.set(st, "G:rw_writes", tIte(tEq(errT, tNull), tStore(writes, w, mk(SInt, "(+ %s 1)", tSelect(writes, w).S)), writes))
		return scalar(errT, rt), true
	case "(net/url.Values).Encode":
		mt := callee.Signature.Recv().Type()
		return scalar(c.valuesEncode(st, args[0].T, mt), rt), true
	case "(net/http.Header).Set":
		mt := callee.Signature.Recv().Type()
		v := scalar(c.mkSlice(SStr, []*Term{args[2].T}), types.NewSlice(types.Typ[types.String]))
		if err := c.mapUpdate(st, args[0].T, mt, args[1].T, v); err != nil {
			return nil, false
		}
		return &Val{Typ: rt}, true
	case "(net/url.Values).Del", "(net/http.Header).Del":
		mt := callee.Signature.Recv().Type()
		if err := c.mapDelete(st, args[0].T, mt, args[1].T); err != nil {
			return nil, false
		}
		return &Val{Typ: rt}, true
	case "(net/url.Values).Set":
		mt := callee.Signature.Recv().Type()
		v := scalar(c.mkSlice(SStr, []*Term{args[2].T}), types.NewSlice(types.Typ[types.String]))
		if err := c.mapUpdate(st, args[0].T, mt, args[1].T, v); err != nil {
			return nil, false
		}
		return &Val{Typ: rt}, true
	case "(net/http.Header).Get":
		mt := callee.Signature.Recv().Type()
		v, ok, err := c.mapLookup(st, args[0].T, mt, args[1].T)
		if err != nil {
			return nil, false
		}
		at := atFun(c, SStr)
		first := tApp(SStr, at, v.T, intLit(0))
		return scalar(tIte(tAnd(ok, mk(SBool, "(> (slen %s) 0)", v.T.S)), first, c.sc.strLit("")), rt), true
	case "(net/url.Values).Add", "(net/http.Header).Add":
		mt := callee.Signature.Recv().Type()
		old, _, err := c.mapLookup(st, args[0].T, mt, args[1].T)
		if err != nil {
			return nil, false
		}
		n := c.sc.freshConst("vals_add", SSl)
		at := atFun(c, SStr)
		c.sc.assert(tImp(reach, mk(SBool, "(and (= (slen %s) (+ (slen %s) 1)) (= (%s %s (slen %s)) %s) (forall ((i Int)) (! (=> (and (<= 0 i) (< i (slen %s))) (= (%s %s i) (%s %s i))) :pattern ((%s %s i)))))",
			n.S, old.T.S, at, n.S, old.T.S, args[2].T.S, old.T.S, at, n.S, at, old.T.S, at, n.S)))
		if err := c.mapUpdate(st, args[0].T, mt, args[1].T, scalar(n, types.NewSlice(types.Typ[types.String]))); err != nil {
			return nil, false
		}
		return &Val{Typ: rt}, true
	}
	return nil, false
}

// marshalJSONMethod returns the repository's MarshalJSON method for values of type t, if any.
func (fr *Frame) marshalJSONMethod(t types.Type) *ssa.Function {
	ms := fr.c.V.prog.MethodSets.MethodSet(t)
	for i := 0; i < ms.Len(); i++ {
		if ms.At(i).Obj().Name() == "MarshalJSON" {
			fn := fr.c.V.prog.MethodValue(ms.At(i))
			if fn != nil && fn.Pkg != nil && strings.HasPrefix(fn.Pkg.Pkg.Path(), repoModule) {
				return fn
			}
		}
	}
	return nil
}

// valuesEncode: the URL encoding of a url.Values map is an uninterpreted function of its contents.
func (c *Ctx) valuesEncode(st *State, m *Term, mt types.Type) *Term {
	mi, _ := c.mapInfo(mt)
	_, dinner, _ := arrParts(mi.domSort)
	l := leavesOf(mt.Underlying().(*types.Map).Elem())[0]
	key, ks := c.mapValKey(mt, l)
	_, vinner, _ := arrParts(ks)
	c.sc.declareFun("values_encode", []Sort{dinner, vinner}, SStr)
	return tApp(SStr, "values_encode", tSelect(c.get(st, mi.dom, mi.domSort), m), tSelect(c.get(st, key, ks), m))
}
