package main

import (
	"go/types"

	"golang.org/x/tools/go/ssa"
)

// nativeModel implements the few library functions whose semantics are built into the
// engine rather than written as a .spec contract.
func (fr *Frame) nativeModel(instr ssa.Instruction, full string, callee *ssa.Function, args []*Val, st *State, reach *Term, rt types.Type) (*Val, bool) {
	c := fr.c
	switch full {
	case "time.Now":
		// a fresh instant, not before any instant observed earlier in this execution
		prev := c.get(st, "G:$now", SInt)
		n := c.sc.freshConst("now", SInt)
		c.sc.assert(tImp(reach, mk(SBool, "(>= %s %s)", n.S, prev.S)))
		c.sc.assert(tImp(reach, mk(SBool, "(> %s 0)", n.S)))
		c.set(st, "G:$now", n)
		return scalar(n, rt), true
	case "(time.Time).UTC", "(time.Time).Local":
		return &Val{T: args[0].T, Typ: rt}, true
	}
	return nil, false
}
