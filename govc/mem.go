package main

import (
	"fmt"
	"go/constant"
	"go/types"
	"strings"

	"golang.org/x/tools/go/ssa"
)

// ---------- zero values, constants ----------

func (c *Ctx) zeroTerm(s Sort) *Term {
	switch s {
	case SBool:
		return tFalse
	case SInt:
		return intLit(0)
	case SReal:
		return &Term{"0.0", SReal}
	case SStr:
		return c.sc.strLit("")
	case SV:
		return tNull
	case SSl:
		return &Term{"nilsl", SSl}
	}
	if _, e, ok := arrParts(s); ok {
		return mk(s, "((as const %s) %s)", s, c.zeroTerm(e).S)
	}
	panic("zero of sort " + string(s))
}

func (c *Ctx) zeroVal(t types.Type) *Val {
	if s, ok := sortOf(t); ok {
		if _, isArr := t.Underlying().(*types.Array); isArr {
			// array value: fresh sequence of the right length with zero elements is
			// approximated by an unconstrained sequence of that length
			a := t.Underlying().(*types.Array)
			n := c.sc.freshConst("arr", SSl)
			c.sc.assert(tEq(tApp(SInt, "slen", n), intLit(a.Len())))
			return scalar(n, t)
		}
		return scalar(c.zeroTerm(s), t)
	}
	switch u := t.Underlying().(type) {
	case *types.Struct:
		v := &Val{Typ: t}
		for i := 0; i < u.NumFields(); i++ {
			v.Fs = append(v.Fs, c.zeroVal(u.Field(i).Type()))
		}
		return v
	case *types.Tuple:
		v := &Val{Typ: t}
		for i := 0; i < u.Len(); i++ {
			v.Fs = append(v.Fs, c.zeroVal(u.At(i).Type()))
		}
		return v
	}
	panic("zeroVal " + t.String())
}

// freshVal returns an unconstrained value of type t.
func (c *Ctx) freshVal(name string, t types.Type) *Val {
	if s, ok := sortOf(t); ok {
		n := c.sc.freshConst(name, s)
		c.assumeTypeFacts(n, t, tTrue)
		return scalar(n, t)
	}
	switch u := t.Underlying().(type) {
	case *types.Struct:
		v := &Val{Typ: t}
		for i := 0; i < u.NumFields(); i++ {
			v.Fs = append(v.Fs, c.freshVal(name+"."+u.Field(i).Name(), u.Field(i).Type()))
		}
		return v
	case *types.Tuple:
		v := &Val{Typ: t}
		for i := 0; i < u.Len(); i++ {
			v.Fs = append(v.Fs, c.freshVal(fmt.Sprintf("%s.%d", name, i), u.At(i).Type()))
		}
		return v
	}
	panic("freshVal " + t.String())
}

// assumeTypeFacts adds range facts that follow from the Go type of a value.
func (c *Ctx) assumeTypeFacts(t *Term, typ types.Type, guard *Term) {
	if typ == nil {
		return
	}
	if isUnsigned(typ) && t.Sort == SInt {
		c.sc.assert(tImp(guard, mk(SBool, "(>= %s 0)", t.S)))
	}
	if a, ok := typ.Underlying().(*types.Array); ok && t.Sort == SSl {
		c.sc.assert(tImp(guard, tEq(tApp(SInt, "slen", t), intLit(a.Len()))))
	}
}

func (c *Ctx) constVal(k *ssa.Const) *Val {
	t := k.Type()
	if k.Value == nil {
		return c.zeroVal(t)
	}
	s, ok := sortOf(t)
	if !ok {
		panic("const of composite type")
	}
	switch s {
	case SBool:
		if constant.BoolVal(k.Value) {
			return scalar(tTrue, t)
		}
		return scalar(tFalse, t)
	case SInt:
		if i, exact := constant.Int64Val(constant.ToInt(k.Value)); exact {
			return scalar(intLit(i), t)
		}
		if u, exact := constant.Uint64Val(constant.ToInt(k.Value)); exact {
			return scalar(&Term{fmt.Sprintf("%d", u), SInt}, t)
		}
		return scalar(c.sc.freshConst("bigconst", SInt), t)
	case SStr:
		return scalar(c.sc.strLit(constant.StringVal(k.Value)), t)
	case SReal:
		f, _ := constant.Float64Val(k.Value)
		txt := fmt.Sprintf("%f", f)
		if f < 0 {
			txt = fmt.Sprintf("(- %f)", -f)
		}
		return scalar(&Term{txt, SReal}, t)
	}
	return scalar(c.sc.freshConst("const", s), t)
}

// ---------- type ids / dynamic types ----------

func (c *Ctx) typeID(t types.Type) *Term {
	k := typeKey(t)
	id, ok := c.typeIDs[k]
	if !ok {
		id = len(c.typeIDs) + 1
		c.typeIDs[k] = id
	}
	return intLit(int64(id))
}

// ---------- slices ----------

func atFun(c *Ctx, elem Sort) string {
	name := "at_" + sortName(elem)
	c.sc.declareFun(name, []Sort{SSl, SInt}, elem)
	return name
}

func (c *Ctx) slAt(s *Term, i *Term, elemT types.Type) *Val {
	es, ok := sortOf(elemT)
	if !ok {
		return nil
	}
	return scalar(tApp(es, atFun(c, es), s, i), elemT)
}

func elemType(t types.Type) types.Type {
	switch u := t.Underlying().(type) {
	case *types.Slice:
		return u.Elem()
	case *types.Array:
		return u.Elem()
	case *types.Pointer:
		return elemType(u.Elem())
	case *types.Basic:
		if u.Info()&types.IsString != 0 {
			return types.Typ[types.Byte]
		}
	}
	return nil
}

// ---------- memory ----------

func (c *Ctx) embFun(structT types.Type, f *types.Var) string {
	name := smtName("emb_" + typeKey(structT) + "." + f.Name())
	if !c.sc.declSeen[name] {
		c.sc.declareFun(name, []Sort{SV}, SV)
		c.sc.declareFun("embtag", []Sort{SV}, SInt)
		c.embTags++
		c.sc.axiomOnce(fmt.Sprintf("(forall ((r V)) (! (and (= (birth (%s r)) (birth r)) (not (= (%s r) null)) (= (embtag (%s r)) %d)) :pattern ((%s r))))", name, name, name, c.embTags, name))
	}
	return name
}

// loadObj reads the object of type t stored at reference ref.
func (c *Ctx) loadObj(st *State, ref *Term, t types.Type) *Val {
	if s, ok := sortOf(t); ok {
		if _, isArr := t.Underlying().(*types.Array); isArr {
			return c.arraySnapshot(st, ref, t)
		}
		k := "P:" + typeKey(t)
		return scalar(tSelect(c.get(st, k, ArrSort(SV, s)), ref), t)
	}
	switch u := t.Underlying().(type) {
	case *types.Struct:
		v := &Val{Typ: t}
		for i := 0; i < u.NumFields(); i++ {
			v.Fs = append(v.Fs, c.loadField(st, ref, t, u.Field(i)))
		}
		return v
	}
	panic("loadObj " + t.String())
}

func (c *Ctx) loadField(st *State, ref *Term, structT types.Type, f *types.Var) *Val {
	ft := f.Type()
	if s, ok := sortOf(ft); ok {
		if _, isArr := ft.Underlying().(*types.Array); isArr {
			return c.arraySnapshot(st, tApp(SV, c.embFun(structT, f), ref), ft)
		}
		return scalar(tSelect(c.get(st, fieldKey(structT, f), ArrSort(SV, s)), ref), ft)
	}
	return c.loadObj(st, tApp(SV, c.embFun(structT, f), ref), ft)
}

func (c *Ctx) storeObj(st *State, ref *Term, t types.Type, v *Val) {
	if s, ok := sortOf(t); ok {
		if _, isArr := t.Underlying().(*types.Array); isArr {
			c.arrayStoreAll(st, ref, t, v)
			return
		}
		k := "P:" + typeKey(t)
		c.set(st, k, tStore(c.get(st, k, ArrSort(SV, s)), ref, c.coerce(v.T, s)))
		return
	}
	switch u := t.Underlying().(type) {
	case *types.Struct:
		for i := 0; i < u.NumFields(); i++ {
			c.storeField(st, ref, t, u.Field(i), v.Fs[i])
		}
		return
	}
	panic("storeObj " + t.String())
}

func (c *Ctx) storeField(st *State, ref *Term, structT types.Type, f *types.Var, v *Val) {
	ft := f.Type()
	if s, ok := sortOf(ft); ok {
		if _, isArr := ft.Underlying().(*types.Array); isArr {
			c.arrayStoreAll(st, tApp(SV, c.embFun(structT, f), ref), ft, v)
			return
		}
		k := fieldKey(structT, f)
		c.set(st, k, tStore(c.get(st, k, ArrSort(SV, s)), ref, c.coerce(v.T, s)))
		return
	}
	c.storeObj(st, tApp(SV, c.embFun(structT, f), ref), ft, v)
}

func (c *Ctx) coerce(t *Term, s Sort) *Term {
	if t == nil {
		panic("coerce nil term")
	}
	if t.Sort == s {
		return t
	}
	if t.Sort == SInt && s == SReal {
		return mk(SReal, "(to_real %s)", t.S)
	}
	panic(fmt.Sprintf("sort mismatch: %s : %s, want %s", t.S, t.Sort, s))
}

// arrays in memory: key A:<elem> : Array V (Array Int elem)
func (c *Ctx) arrKey(t types.Type) (string, Sort, Sort) {
	a := t.Underlying().(*types.Array)
	es, ok := sortOf(a.Elem())
	if !ok {
		panic("array of composite elements: " + t.String())
	}
	return "A:" + typeKey(a.Elem()), ArrSort(SV, ArrSort(SInt, es)), es
}

func (c *Ctx) arraySnapshot(st *State, ref *Term, t types.Type) *Val {
	a := t.Underlying().(*types.Array)
	k, ks, es := c.arrKey(t)
	contents := tSelect(c.get(st, k, ks), ref)
	at := atFun(c, es)
	if a.Len() <= 8 {
		var elems []*Term
		for i := int64(0); i < a.Len(); i++ {
			elems = append(elems, tSelect(contents, intLit(i)))
		}
		n := c.sc.freshConst("arrv", SSl)
		c.sc.assert(tEq(n, c.mkSlice(es, elems)))
		return scalar(n, t)
	}
	_ = at
	return scalar(c.arr2sl(contents, a.Len(), es), t)
}

// arr2sl: the slice view of the first n elements of an array's contents, as a function of the contents.
func (c *Ctx) arr2sl(contents *Term, n int64, es Sort) *Term {
	at := atFun(c, es)
	fn := "arr2sl_" + sortName(es)
	c.sc.declareFun(fn, []Sort{ArrSort(SInt, es), SInt}, SSl)
	c.sc.axiomFor(fn, fmt.Sprintf("(forall ((a %s) (n Int)) (! (=> (>= n 0) (= (slen (%s a n)) n)) :pattern ((%s a n))))", ArrSort(SInt, es), fn, fn))
	c.sc.axiomFor(fn, fmt.Sprintf("(forall ((a %s) (n Int) (i Int)) (! (=> (and (<= 0 i) (< i n)) (= (%s (%s a n) i) (select a i))) :pattern ((%s (%s a n) i))))", ArrSort(SInt, es), at, fn, at, fn))
	return tApp(SSl, fn, contents, intLit(n))
}

// zeroArr is the constant array of zero values.
func (c *Ctx) zeroArr(es Sort) *Term {
	return mk(ArrSort(SInt, es), "((as const %s) %s)", ArrSort(SInt, es), c.zeroTerm(es).S)
}

// copyInto: contents after copy(dst[:], src) into an array of n elements.
func (c *Ctx) copyInto(old, src *Term, n int64, es Sort) *Term {
	at := atFun(c, es)
	fn := "copyinto_" + sortName(es)
	as := ArrSort(SInt, es)
	c.sc.declareFun(fn, []Sort{as, SSl, SInt}, as)
	c.sc.axiomFor(fn, fmt.Sprintf("(forall ((a %s) (s Sl) (n Int) (i Int)) (! (= (select (%s a s n) i) (ite (and (<= 0 i) (< i n) (< i (slen s))) (%s s i) (select a i))) :pattern ((select (%s a s n) i))))", as, fn, at, fn))
	return tApp(as, fn, old, src, intLit(n))
}

func (c *Ctx) arrayStoreAll(st *State, ref *Term, t types.Type, v *Val) {
	k, ks, es := c.arrKey(t)
	cur := c.get(st, k, ks)
	n := c.sc.freshConst("arrc", ArrSort(SInt, es))
	at := atFun(c, es)
	c.sc.assert(mk(SBool, "(forall ((i Int)) (! (= (select %s i) (%s %s i)) :pattern ((select %s i))))", n.S, at, v.T.S, n.S))
	c.set(st, k, tStore(cur, ref, n))
}

// load through an address value.
func (c *Ctx) load(st *State, addr *Val, elemT types.Type) (*Val, error) {
	if addr.Loc != nil {
		l := addr.Loc
		switch l.Kind {
		case "field":
			s, _ := sortOf(l.Typ)
			return scalar(tSelect(c.get(st, l.Key, ArrSort(SV, s)), l.Base), l.Typ), nil
		case "slelem":
			v := c.slAt(l.Base, l.Idx, l.Typ)
			if v == nil {
				return nil, fmt.Errorf("slice of composite elements")
			}
			return v, nil
		case "arrelem":
			s, _ := sortOf(l.Typ)
			return scalar(tSelect(tSelect(c.get(st, l.Key, ArrSort(SV, ArrSort(SInt, s))), l.Base), l.Idx), l.Typ), nil
		}
		return nil, fmt.Errorf("load from loc kind %s", l.Kind)
	}
	if addr.T == nil {
		return nil, fmt.Errorf("load from non-address")
	}
	return c.loadObj(st, addr.T, elemT), nil
}

func (c *Ctx) store(st *State, addr *Val, elemT types.Type, v *Val) error {
	if addr.Loc != nil {
		l := addr.Loc
		switch l.Kind {
		case "field":
			s, _ := sortOf(l.Typ)
			c.set(st, l.Key, tStore(c.get(st, l.Key, ArrSort(SV, s)), l.Base, c.coerce(v.T, s)))
			return nil
		case "arrelem":
			s, _ := sortOf(l.Typ)
			ks := ArrSort(SV, ArrSort(SInt, s))
			cur := c.get(st, l.Key, ks)
			c.set(st, l.Key, tStore(cur, l.Base, tStore(tSelect(cur, l.Base), l.Idx, c.coerce(v.T, s))))
			return nil
		}
		return fmt.Errorf("store through %s address", l.Kind)
	}
	if addr.T == nil {
		return fmt.Errorf("store to non-address")
	}
	c.storeObj(st, addr.T, elemT, v)
	return nil
}

// ---------- maps ----------

type mapKeys struct {
	dom     string
	domSort Sort
	ksort   Sort
}

func (c *Ctx) mapInfo(t types.Type) (*mapKeys, error) {
	m, ok := t.Underlying().(*types.Map)
	if !ok {
		return nil, fmt.Errorf("not a map: %s", t)
	}
	ks, ok := sortOf(m.Key())
	if !ok {
		return nil, fmt.Errorf("map with composite key %s", t)
	}
	tk := typeKey(m)
	return &mapKeys{dom: "MD:" + tk, domSort: ArrSort(SV, ArrSort(ks, SBool)), ksort: ks}, nil
}

// mapLeaves enumerates (key suffix, type, accessor path) of the value type's scalar leaves.
type leaf struct {
	path []int
	name string
	typ  types.Type
	sort Sort
}

func leavesOf(t types.Type) []leaf {
	if s, ok := sortOf(t); ok {
		return []leaf{{nil, "", t, s}}
	}
	var out []leaf
	switch u := t.Underlying().(type) {
	case *types.Struct:
		for i := 0; i < u.NumFields(); i++ {
			for _, l := range leavesOf(u.Field(i).Type()) {
				out = append(out, leaf{append([]int{i}, l.path...), "." + u.Field(i).Name() + l.name, l.typ, l.sort})
			}
		}
	case *types.Tuple:
		for i := 0; i < u.Len(); i++ {
			for _, l := range leavesOf(u.At(i).Type()) {
				out = append(out, leaf{append([]int{i}, l.path...), fmt.Sprintf(".%d%s", i, l.name), l.typ, l.sort})
			}
		}
	}
	return out
}

func (v *Val) at(path []int) *Val {
	for _, i := range path {
		v = v.Fs[i]
	}
	return v
}

// buildVal builds a value of type t from a leaf generator.
func buildVal(t types.Type, gen func(l leaf) *Term) *Val {
	var rec func(t types.Type, prefix []int, name string) *Val
	rec = func(t types.Type, prefix []int, name string) *Val {
		if s, ok := sortOf(t); ok {
			return scalar(gen(leaf{prefix, name, t, s}), t)
		}
		v := &Val{Typ: t}
		switch u := t.Underlying().(type) {
		case *types.Struct:
			for i := 0; i < u.NumFields(); i++ {
				v.Fs = append(v.Fs, rec(u.Field(i).Type(), append(append([]int{}, prefix...), i), name+"."+u.Field(i).Name()))
			}
		case *types.Tuple:
			for i := 0; i < u.Len(); i++ {
				v.Fs = append(v.Fs, rec(u.At(i).Type(), append(append([]int{}, prefix...), i), fmt.Sprintf("%s.%d", name, i)))
			}
		}
		return v
	}
	return rec(t, nil, "")
}

func (c *Ctx) mapValKey(t types.Type, l leaf) (string, Sort) {
	m := t.Underlying().(*types.Map)
	ks, _ := sortOf(m.Key())
	return "MV:" + typeKey(m) + l.name, ArrSort(SV, ArrSort(ks, l.sort))
}

func (c *Ctx) mapLookup(st *State, m *Term, mt types.Type, k *Term) (*Val, *Term, error) {
	mi, err := c.mapInfo(mt)
	if err != nil {
		return nil, nil, err
	}
	ok := tSelect(tSelect(c.get(st, mi.dom, mi.domSort), m), k)
	vt := mt.Underlying().(*types.Map).Elem()
	v := buildVal(vt, func(l leaf) *Term {
		key, ks := c.mapValKey(mt, l)
		return tIte(ok, tSelect(tSelect(c.get(st, key, ks), m), k), c.zeroTerm(l.sort))
	})
	return v, ok, nil
}

func (c *Ctx) mapUpdate(st *State, m *Term, mt types.Type, k *Term, v *Val) error {
	mi, err := c.mapInfo(mt)
	if err != nil {
		return err
	}
	d := c.get(st, mi.dom, mi.domSort)
	c.set(st, mi.dom, tStore(d, m, tStore(tSelect(d, m), k, tTrue)))
	vt := mt.Underlying().(*types.Map).Elem()
	for _, l := range leavesOf(vt) {
		key, ks := c.mapValKey(mt, l)
		cur := c.get(st, key, ks)
		c.set(st, key, tStore(cur, m, tStore(tSelect(cur, m), k, c.coerce(v.at(l.path).T, l.sort))))
	}
	return nil
}

func (c *Ctx) mapDelete(st *State, m *Term, mt types.Type, k *Term) error {
	mi, err := c.mapInfo(mt)
	if err != nil {
		return err
	}
	d := c.get(st, mi.dom, mi.domSort)
	c.set(st, mi.dom, tStore(d, m, tStore(tSelect(d, m), k, tFalse)))
	return nil
}

func (c *Ctx) mapMake(st *State, m *Term, mt types.Type) error {
	mi, err := c.mapInfo(mt)
	if err != nil {
		return err
	}
	d := c.get(st, mi.dom, mi.domSort)
	_, inner, _ := arrParts(mi.domSort)
	c.set(st, mi.dom, tStore(d, m, mk(inner, "((as const %s) false)", inner)))
	return nil
}

// ---------- allocation ----------

func (c *Ctx) alloc(st *State, name string, guard *Term) *Term {
	r := c.sc.freshConst(name, SV)
	clk := c.clk(st)
	c.sc.assert(tImp(guard, tAnd(tNot(tEq(r, tNull)), tEq(tApp(SInt, "birth", r), clk))))
	n := c.sc.freshConst("clk", SInt)
	c.sc.assert(tEq(n, mk(SInt, "(+ %s 1)", clk.S)))
	st.h["$clk"] = n
	// ghost maps declared "zeroed" hold the zero value for an object that has just come into existence
	for _, name := range c.V.zeroedGhosts {
		g := c.V.ghosts[name]
		s, err := ghostSort(g.Type)
		if err != nil {
			continue
		}
		ks, vs, ok := arrParts(s)
		if !ok || ks != SV {
			continue
		}
		c.sc.assert(tImp(guard, tEq(tSelect(c.get(st, "G:"+name, s), r), c.zeroTerm(vs))))
	}
	return r
}

// existed says that v was allocated before the current instant (or is nil).
func (c *Ctx) assumeExisting(st *State, v *Term, guard *Term) {
	if v.Sort != SV {
		return
	}
	c.sc.assert(tImp(guard, mk(SBool, "(< (birth %s) %s)", v.S, c.clk(st).S)))
}

func leafName(s string) string { return strings.TrimPrefix(s, ".") }

// mkSlice builds the canonical slice value with the given elements.
func (c *Ctx) mkSlice(es Sort, elems []*Term) *Term {
	if len(elems) == 0 {
		name := "sl0_" + sortName(es)
		c.sc.declareConst(name, SSl)
		c.sc.axiomOnce(fmt.Sprintf("(= (slen %s) 0)", name))
		return &Term{name, SSl}
	}
	name := fmt.Sprintf("sl%d_%s", len(elems), sortName(es))
	if !c.sc.declSeen[name] {
		args := make([]Sort, len(elems))
		var binders, names []string
		for i := range elems {
			args[i] = es
			binders = append(binders, fmt.Sprintf("(a%d %s)", i, es))
			names = append(names, fmt.Sprintf("a%d", i))
		}
		c.sc.declareFun(name, args, SSl)
		at := atFun(c, es)
		app := fmt.Sprintf("(%s %s)", name, strings.Join(names, " "))
		parts := []string{fmt.Sprintf("(= (slen %s) %d)", app, len(elems))}
		for i := range elems {
			parts = append(parts, fmt.Sprintf("(= (%s %s %d) a%d)", at, app, i, i))
		}
		c.sc.axiomOnce(fmt.Sprintf("(forall (%s) (! (and %s) :pattern (%s)))", strings.Join(binders, " "), strings.Join(parts, " "), app))
	}
	return tApp(SSl, name, elems...)
}

// packVariadic turns f(a, b, c) into f(a, slice{b, c}) when f is variadic and the call is not already packed.
func (c *Ctx) packVariadic(sig *types.Signature, args []*Val) []*Val {
	if !sig.Variadic() {
		return args
	}
	np := sig.Params().Len()
	last := sig.Params().At(np - 1).Type()
	if len(args) == np && args[np-1].T != nil && args[np-1].T.Sort == SSl {
		if es, ok := sortOf(elemType(last)); !ok || es != SSl {
			return args
		}
	}
	es, ok := sortOf(elemType(last))
	if !ok || len(args) < np-1 {
		return args
	}
	if len(args) == np-1 {
		// no variadic arguments: Go passes a nil slice
		out := append([]*Val{}, args...)
		return append(out, scalar(&Term{"nilsl", SSl}, last))
	}
	var elems []*Term
	for _, a := range args[np-1:] {
		if a.T != nil && es == SV && a.T.Sort != SV && a.Typ != nil {
			// a non-reference value passed as interface{}: box it like the compiler does
			fr := &Frame{c: c}
			b, _ := fr.boxFun(a.Typ, a.T.Sort)
			elems = append(elems, tApp(SV, b, a.T))
			continue
		}
		if a.T == nil || a.T.Sort != es {
			return args
		}
		elems = append(elems, a.T)
	}
	out := append([]*Val{}, args[:np-1]...)
	return append(out, scalar(c.mkSlice(es, elems), last))
}
