package main

import (
	"fmt"
	"go/constant"
	"go/types"
	"strings"

	"golang.org/x/tools/go/ssa"
)

// Env evaluates contract expressions to SMT terms.
type Env struct {
	c        *Ctx
	pkg      *types.Package
	vars     map[string]*Val
	lets     map[string]Expr
	st, old  *State
	pre      *State // loop-entry state (invariants only)
	atEnd    bool   // local lookups see the whole current block (assert clauses at call sites)
	frame    *Frame
	blk      *ssa.BasicBlock
	override map[ssa.Value]*Val
	parent   *Env
	qdepth   int
	isBinder bool // vars of this env are quantifier / spec-function binders
	expanding map[string]bool
	free      map[string]*Val // captured variables of a function literal under contract: name -> cell (or value)
}

func newEnv(c *Ctx, pkg *types.Package) *Env {
	return &Env{c: c, pkg: pkg, vars: map[string]*Val{}, lets: map[string]Expr{}}
}

func (e *Env) child() *Env {
	n := *e
	n.vars = map[string]*Val{}
	n.lets = map[string]Expr{}
	n.parent = e
	return &n
}

func (e *Env) lookupVar(name string) (*Val, bool) {
	for x := e; x != nil; x = x.parent {
		if v, ok := x.vars[name]; ok {
			return v, true
		}
	}
	return nil, false
}

// qvar returns the quantifier-bound or spec-parameter variable of that name, if any.
func (e *Env) qvar(name string) *Val {
	for x := e; x != nil; x = x.parent {
		if v, ok := x.vars[name]; ok {
			if x.isBinder {
				return v
			}
			return nil
		}
	}
	return nil
}

func (e *Env) lookupLet(name string) (Expr, bool) {
	for x := e; x != nil; x = x.parent {
		if v, ok := x.lets[name]; ok {
			return v, true
		}
	}
	return nil, false
}

func (e *Env) evalBool(x Expr) (*Term, error) {
	v, err := e.eval(x)
	if err != nil {
		return nil, err
	}
	if v.T == nil || v.T.Sort != SBool {
		return nil, fmt.Errorf("expected boolean expression, got %s", describe(v))
	}
	return v.T, nil
}

func describe(v *Val) string {
	if v == nil {
		return "<nil>"
	}
	if v.T != nil {
		return fmt.Sprintf("%s : %s", trunc(v.T.S, 40), v.T.Sort)
	}
	if v.Typ != nil {
		return "composite " + v.Typ.String()
	}
	return "composite"
}

// resolveType maps type text used in contracts to a Go type (or nil + sort for ghost sorts).
func (e *Env) resolveType(text string) (types.Type, Sort, error) {
	text = strings.TrimSpace(text)
	switch text {
	case "int":
		return types.Typ[types.Int], SInt, nil
	case "int64":
		return types.Typ[types.Int64], SInt, nil
	case "string":
		return types.Typ[types.String], SStr, nil
	case "bool":
		return types.Typ[types.Bool], SBool, nil
	case "V", "any", "interface{}":
		return types.NewInterfaceType(nil, nil), SV, nil
	case "Sl":
		return nil, SSl, nil
	case "error":
		return types.Universe.Lookup("error").Type(), SV, nil
	}
	if strings.HasPrefix(text, "[]") {
		et, _, err := e.resolveType(text[2:])
		if err != nil {
			return nil, "", err
		}
		if et == nil {
			return nil, SSl, nil
		}
		return types.NewSlice(et), SSl, nil
	}
	if strings.HasPrefix(text, "*") {
		et, _, err := e.resolveType(text[1:])
		if err != nil {
			return nil, "", err
		}
		return types.NewPointer(et), SV, nil
	}
	if strings.HasPrefix(text, "map[") {
		close := matchBracket(text, 3)
		kt, ks, err := e.resolveType(text[4:close])
		if err != nil {
			return nil, "", err
		}
		vt, vs, err := e.resolveType(text[close+1:])
		if err != nil {
			return nil, "", err
		}
		if kt != nil && vt != nil {
			return types.NewMap(kt, vt), SV, nil
		}
		return nil, ArrSort(ks, vs), nil
	}
	// named type: pkg.Name or Name
	if obj := e.lookupObject(text); obj != nil {
		if tn, ok := obj.(*types.TypeName); ok {
			s, ok := sortOf(tn.Type())
			if !ok {
				return tn.Type(), "", nil
			}
			return tn.Type(), s, nil
		}
	}
	return nil, "", fmt.Errorf("unknown type %q", text)
}

func matchBracket(s string, open int) int {
	d := 0
	for i := open; i < len(s); i++ {
		switch s[i] {
		case '[':
			d++
		case ']':
			d--
			if d == 0 {
				return i
			}
		}
	}
	return -1
}

// ghostSort parses a ghost declaration type into an SMT sort.
func ghostSort(text string) (Sort, error) {
	text = strings.TrimSpace(text)
	switch text {
	case "int":
		return SInt, nil
	case "bool":
		return SBool, nil
	case "string":
		return SStr, nil
	case "V":
		return SV, nil
	case "Sl":
		return SSl, nil
	}
	if strings.HasPrefix(text, "map[") {
		close := matchBracket(text, 3)
		k, err := ghostSort(text[4:close])
		if err != nil {
			return "", err
		}
		v, err := ghostSort(text[close+1:])
		if err != nil {
			return "", err
		}
		return ArrSort(k, v), nil
	}
	if text != "" && (text[0] == '*' || strings.Contains(text, ".") || (text[0] >= 'A' && text[0] <= 'Z')) {
		// a Go interface / pointer type: values are references
		return SV, nil
	}
	return "", fmt.Errorf("unknown ghost sort %q", text)
}

// ghostElemText returns the element type text of a ghost map type ("" if none).
func ghostElemText(text string) string {
	text = strings.TrimSpace(text)
	if strings.HasPrefix(text, "map[") {
		return strings.TrimSpace(text[matchBracket(text, 3)+1:])
	}
	return ""
}

// lookupObject resolves "Name" or "pkg.Name" against the contract's package.
func (e *Env) lookupObject(name string) types.Object {
	if e.pkg == nil {
		return nil
	}
	if k := strings.LastIndex(name, "."); k >= 0 {
		pn, on := name[:k], name[k+1:]
		if p := e.c.V.findPackage(e.pkg, pn); p != nil {
			return p.Scope().Lookup(on)
		}
		return nil
	}
	if o := e.pkg.Scope().Lookup(name); o != nil {
		return o
	}
	return types.Universe.Lookup(name)
}

func (e *Env) eval(x Expr) (*Val, error) {
	c := e.c
	switch n := x.(type) {
	case *EInt:
		return scalar(intLit(n.V), types.Typ[types.Int]), nil
	case *EStr:
		return scalar(c.sc.strLit(n.V), types.Typ[types.String]), nil
	case *EBool:
		if n.V {
			return scalar(tTrue, types.Typ[types.Bool]), nil
		}
		return scalar(tFalse, types.Typ[types.Bool]), nil
	case *ENil:
		return scalar(tNull, types.Typ[types.UntypedNil]), nil
	case *EIdent:
		return e.evalIdent(n.Name)
	case *EOld:
		if e.old == nil {
			return nil, fmt.Errorf("old() not available here")
		}
		ne := *e
		ne.st = e.old
		return ne.eval(n.X)
	case *ECall:
		if id, ok := n.Fun.(*EIdent); ok && id.Name == "pre" && len(n.Args) == 1 {
			if e.pre == nil {
				return nil, fmt.Errorf("pre() is only available in loop invariants")
			}
			ne := *e
			ne.st = e.pre
			return ne.eval(n.Args[0])
		}
		return e.evalCall(n)
	case *EUnary:
		v, err := e.eval(n.X)
		if err != nil {
			return nil, err
		}
		if v.T == nil {
			return nil, fmt.Errorf("unary %s on composite", n.Op)
		}
		if n.Op == "*" {
			p, ok := v.Typ.Underlying().(*types.Pointer)
			if v.Typ == nil || !ok {
				return nil, fmt.Errorf("dereference of non-pointer %s", describe(v))
			}
			return c.loadObj(e.st, v.T, p.Elem()), nil
		}
		if n.Op == "!" {
			if v.T.Sort != SBool {
				return nil, fmt.Errorf("! on non-bool %s", describe(v))
			}
			return scalar(tNot(v.T), types.Typ[types.Bool]), nil
		}
		return scalar(mk(v.T.Sort, "(- %s)", v.T.S), v.Typ), nil
	case *EBinary:
		return e.evalBinary(n)
	case *ECond:
		cnd, err := e.evalBool(n.C)
		if err != nil {
			return nil, err
		}
		a, err := e.eval(n.A)
		if err != nil {
			return nil, err
		}
		b, err := e.eval(n.B)
		if err != nil {
			return nil, err
		}
		if a.T == nil || b.T == nil || a.T.Sort != b.T.Sort {
			return nil, fmt.Errorf("?: branches differ: %s vs %s", describe(a), describe(b))
		}
		return &Val{T: tIte(cnd, a.T, b.T), Typ: a.Typ}, nil
	case *EQuant:
		ne := e.child()
		ne.isBinder = true
		ne.qdepth = e.qdepth + 1
		var binders []string
		for _, v := range n.Vars {
			t, s, err := e.resolveType(v.Type)
			if err != nil {
				return nil, err
			}
			if s == "" {
				return nil, fmt.Errorf("quantified variable %s of composite type", v.Name)
			}
			c.sc.fresh["q_"+v.Name]++
			name := fmt.Sprintf("q_%s!%d", v.Name, c.sc.fresh["q_"+v.Name])
			ne.vars[v.Name] = &Val{T: &Term{name, s}, Typ: t}
			binders = append(binders, fmt.Sprintf("(%s %s)", name, s))
		}
		body, err := ne.evalBool(n.Body)
		if err != nil {
			return nil, err
		}
		q := "exists"
		if n.Forall {
			q = "forall"
		}
		return scalar(mk(SBool, "(%s (%s) %s)", q, strings.Join(binders, " "), body.S), types.Typ[types.Bool]), nil
	case *ESel:
		return e.evalSel(n)
	case *EIndex:
		return e.evalIndex(n)
	case *ESlice:
		xv, err := e.eval(n.X)
		if err != nil {
			return nil, err
		}
		if xv.T != nil && xv.Typ != nil && n.Lo == nil && n.Hi == nil {
			if pt, ok := xv.Typ.Underlying().(*types.Pointer); ok {
				if _, isArr := pt.Elem().Underlying().(*types.Array); isArr {
					v := c.arraySnapshot(e.st, xv.T, pt.Elem())
					return &Val{T: v.T, Typ: types.NewSlice(pt.Elem().Underlying().(*types.Array).Elem())}, nil
				}
			}
		}
		if xv.T != nil && xv.T.Sort == SSl {
			lo := intLit(0)
			hi := tApp(SInt, "slen", xv.T)
			if n.Lo != nil {
				v, err := e.eval(n.Lo)
				if err != nil {
					return nil, err
				}
				lo = v.T
			}
			if n.Hi != nil {
				v, err := e.eval(n.Hi)
				if err != nil {
					return nil, err
				}
				hi = v.T
			}
			var elem types.Type
			if xv.Typ != nil {
				if st, ok := xv.Typ.Underlying().(*types.Slice); ok {
					elem = st.Elem()
				}
			}
			if elem == nil {
				elem = types.Typ[types.Byte]
			}
			return &Val{T: c.subSlice(xv.T, lo, hi, elem), Typ: xv.Typ}, nil
		}
		if xv.T == nil || xv.T.Sort != SStr {
			return nil, fmt.Errorf("slicing supported on strings and slices only in contracts")
		}
		lo := intLit(0)
		hi := tApp(SInt, "len_s", xv.T)
		if n.Lo != nil {
			v, err := e.eval(n.Lo)
			if err != nil {
				return nil, err
			}
			lo = v.T
		}
		if n.Hi != nil {
			v, err := e.eval(n.Hi)
			if err != nil {
				return nil, err
			}
			hi = v.T
		}
		fr := &Frame{c: c}
		return scalar(fr.substr(xv.T, lo, hi), types.Typ[types.String]), nil
	}
	return nil, fmt.Errorf("cannot evaluate %T", x)
}

func (e *Env) evalIdent(name string) (*Val, error) {
	c := e.c
	if strings.HasPrefix(name, "$p_") {
		if v, ok := e.lookupVar(name[3:]); ok {
			return v, nil
		}
		return nil, fmt.Errorf("no parameter %s", name[3:])
	}
	// inside a function body (loop invariants, call-site asserts) source-level locals shadow
	// parameters - but never the contract's own let abbreviations, which are written over the parameters
	if _, isLet := e.lookupLet(name); !isLet && e.frame != nil && e.blk != nil && e.qvar(name) == nil {
		if v := e.lookupLocal(name); v != nil {
			return v, nil
		}
	}
	if v, ok := e.lookupVar(name); ok {
		return v, nil
	}
	if fv, ok := e.free[name]; ok {
		// captured by reference: the cell's current content
		if p, isPtr := fv.Typ.Underlying().(*types.Pointer); isPtr && fv.T != nil {
			return c.loadObj(e.st, fv.T, p.Elem()), nil
		}
		return fv, nil
	}
	if le, ok := e.lookupLet(name); ok {
		if e.expanding == nil {
			e.expanding = map[string]bool{}
		}
		if e.expanding[name] {
			return nil, fmt.Errorf("recursive let %s", name)
		}
		e.expanding[name] = true
		defer delete(e.expanding, name)
		// a let is an abbreviation over parameters and ghost state: locals are not visible inside it
		ne := *e
		ne.frame = nil
		ne.blk = nil
		ne.expanding = e.expanding
		return ne.eval(le)
	}
	if name == "$nowcalls" {
		// how often the clock has been read so far (ghost)
		return scalar(c.get(e.st, "G:$nowcalls", SInt), nil), nil
	}
	if name == "$now" {
		// the instant returned by the latest time.Now() (ghost)
		return scalar(c.get(e.st, "G:$now", SInt), nil), nil
	}
	if strings.HasPrefix(name, "$") {
		return e.evalPseudo(name)
	}
	if e.frame != nil && e.blk != nil {
		if v := e.lookupLocal(name); v != nil {
			return v, nil
		}
	}
	if g, ok := c.V.ghosts[name]; ok {
		s, err := ghostSort(g.Type)
		if err != nil {
			return nil, err
		}
		gp, _ := g.Pkg.(*types.Package)
		return &Val{T: c.get(e.st, "G:"+name, s), GT: g.Type, GPkg: gp}, nil
	}
	if obj := e.lookupObject(name); obj != nil {
		return e.objectVal(obj)
	}
	return nil, fmt.Errorf("unknown identifier %q (vars %v)", name, e.dbgVars())
}

func (e *Env) objectVal(obj types.Object) (*Val, error) {
	c := e.c
	switch o := obj.(type) {
	case *types.Const:
		s, ok := sortOf(o.Type())
		if !ok {
			return nil, fmt.Errorf("constant %s of composite type", o.Name())
		}
		switch s {
		case SStr:
			return scalar(c.sc.strLit(constant.StringVal(o.Val())), o.Type()), nil
		case SInt:
			i, _ := constant.Int64Val(constant.ToInt(o.Val()))
			return scalar(intLit(i), o.Type()), nil
		case SBool:
			if constant.BoolVal(o.Val()) {
				return scalar(tTrue, o.Type()), nil
			}
			return scalar(tFalse, o.Type()), nil
		}
	case *types.Var:
		if o.Pkg() != nil && o.Parent() == o.Pkg().Scope() {
			name := smtName("glob_" + o.Pkg().Path() + "." + o.Name())
			c.sc.declareConst(name, SV)
			if !c.sc.declSeen["nn:"+name] {
				c.sc.declSeen["nn:"+name] = true
				c.sc.assert(mk(SBool, "(and (not (= %s null)) (< (birth %s) 0))", name, name))
			}
			return c.loadObj(e.st, &Term{name, SV}, o.Type()), nil
		}
	case *types.Nil:
		return scalar(tNull, types.Typ[types.UntypedNil]), nil
	case *types.Func:
		// a named function used as a value: the same constant the executor uses for it
		name := smtName("func_" + o.FullName())
		c.sc.declareConst(name, SV)
		if !c.sc.declSeen["nn:"+name] {
			c.sc.declSeen["nn:"+name] = true
			c.sc.assert(mk(SBool, "(and (not (= %s null)) (< (birth %s) 0))", name, name))
		}
		return &Val{T: &Term{name, SV}, Typ: o.Type()}, nil
	}
	return nil, fmt.Errorf("cannot use %s here", obj)
}

func (e *Env) evalPseudo(name string) (*Val, error) {
	if e.frame == nil || e.blk == nil {
		return nil, fmt.Errorf("%s only valid in loop invariants", name)
	}
	fr := e.frame
	// $i: completed iterations of the innermost rangeindex loop headed at e.blk
	if name == "$i" {
		for _, in := range e.blk.Instrs {
			phi, ok := in.(*ssa.Phi)
			if !ok {
				break
			}
			if phi.Comment == "rangeindex" {
				v := e.ssaVal(phi)
				return scalar(mk(SInt, "(+ %s 1)", v.T.S), types.Typ[types.Int]), nil
			}
		}
		return nil, fmt.Errorf("$i: loop at block %d is not a range-over-slice loop", e.blk.Index)
	}
	if strings.HasPrefix(name, "$i#") {
		var k int
		fmt.Sscanf(name[3:], "%d", &k)
		for h, li := range fr.loops {
			if li.ordinal == k {
				for _, in := range h.Instrs {
					phi, ok := in.(*ssa.Phi)
					if !ok {
						break
					}
					if phi.Comment == "rangeindex" {
						v := e.ssaVal(phi)
						return scalar(mk(SInt, "(+ %s 1)", v.T.S), types.Typ[types.Int]), nil
					}
				}
			}
		}
		return nil, fmt.Errorf("%s: no such range loop", name)
	}
	return nil, fmt.Errorf("unknown pseudo variable %s", name)
}

func (e *Env) ssaVal(v ssa.Value) *Val {
	if e.override != nil {
		if x, ok := e.override[v]; ok {
			return x
		}
	}
	return e.frame.val(v)
}

// lookupLocal finds the value of a source-level local variable at the start of e.blk.
func (e *Env) lookupLocal(name string) *Val {
	fr := e.frame
	// phis of this block
	for _, in := range e.blk.Instrs {
		phi, ok := in.(*ssa.Phi)
		if !ok {
			break
		}
		if phi.Comment == name {
			return e.ssaVal(phi)
		}
	}
	// walk dominators upwards, scanning backwards for DebugRefs / phis
	start := e.blk.Idom()
	if e.atEnd {
		start = e.blk
	}
	isNilConst := func(v ssa.Value) bool {
		k, ok := v.(*ssa.Const)
		return ok && k.Value == nil
	}
	fromRef := func(in *ssa.DebugRef) *Val {
		v := e.ssaVal(in.X)
		if in.IsAddr {
			t := in.X.Type().Underlying().(*types.Pointer).Elem()
			lv, err := e.c.load(e.st, v, t)
			if err != nil {
				return nil
			}
			return lv
		}
		return v
	}
	var nilRef *ssa.DebugRef
	for b := start; b != nil; b = b.Idom() {
		for k := len(b.Instrs) - 1; k >= 0; k-- {
			switch in := b.Instrs[k].(type) {
			case *ssa.DebugRef:
				if obj := in.Object(); obj != nil && obj.Name() == name {
					if _, isVar := obj.(*types.Var); isVar {
						if isNilConst(in.X) {
							// go/ssa reports the zero value at the definition of `x := T{}`; keep looking
							if nilRef == nil {
								nilRef = in
							}
							continue
						}
						return fromRef(in)
					}
				}
			case *ssa.Phi:
				if in.Comment == name {
					return e.ssaVal(in)
				}
			}
		}
	}
	// fallback: any reference to the variable whose value is defined in a block dominating this one
	var found *ssa.DebugRef
	for _, b := range fr.fn.Blocks {
		for _, ins := range b.Instrs {
			in, ok := ins.(*ssa.DebugRef)
			if !ok || isNilConst(in.X) {
				continue
			}
			obj := in.Object()
			if obj == nil || obj.Name() != name {
				continue
			}
			if _, isVar := obj.(*types.Var); !isVar {
				continue
			}
			def, ok := in.X.(ssa.Instruction)
			if ok && def.Block() != nil && (def.Block() == e.blk || def.Block().Dominates(e.blk)) {
				if found != nil && found.X != in.X {
					return nil // ambiguous
				}
				found = in
			}
		}
	}
	if found != nil {
		return fromRef(found)
	}
	if nilRef != nil {
		return fromRef(nilRef)
	}
	return nil
}

func (e *Env) evalBinary(n *EBinary) (*Val, error) {
	c := e.c
	boolT := types.Typ[types.Bool]
	switch n.Op {
	case "&&", "||", "==>", "<==>":
		a, err := e.evalBool(n.L)
		if err != nil {
			return nil, err
		}
		b, err := e.evalBool(n.R)
		if err != nil {
			return nil, err
		}
		switch n.Op {
		case "&&":
			return scalar(tAnd(a, b), boolT), nil
		case "||":
			return scalar(tOr(a, b), boolT), nil
		case "==>":
			return scalar(tImp(a, b), boolT), nil
		default:
			return scalar(tEq(a, b), boolT), nil
		}
	case "in":
		k, err := e.eval(n.L)
		if err != nil {
			return nil, err
		}
		m, err := e.eval(n.R)
		if err != nil {
			return nil, err
		}
		if m.Typ != nil {
			if _, ok := m.Typ.Underlying().(*types.Map); ok {
				mi, err := c.mapInfo(m.Typ)
				if err != nil {
					return nil, err
				}
				return scalar(tSelect(tSelect(c.get(e.st, mi.dom, mi.domSort), m.T), k.T), boolT), nil
			}
		}
		if m.T != nil {
			if _, el, ok := arrParts(m.T.Sort); ok && el == SBool {
				return scalar(tSelect(m.T, k.T), boolT), nil
			}
		}
		return nil, fmt.Errorf("'in' needs a map or a set")
	}
	a, err := e.eval(n.L)
	if err != nil {
		return nil, err
	}
	b, err := e.eval(n.R)
	if err != nil {
		return nil, err
	}
	if n.Op == "==" || n.Op == "!=" {
		t, err := e.equal(a, b)
		if err != nil {
			return nil, err
		}
		if n.Op == "!=" {
			t = tNot(t)
		}
		return scalar(t, boolT), nil
	}
	if a.T == nil || b.T == nil {
		return nil, fmt.Errorf("operator %s on composite values", n.Op)
	}
	x, y := a.T, b.T
	if x.Sort != y.Sort {
		return nil, fmt.Errorf("operator %s on %s and %s", n.Op, describe(a), describe(b))
	}
	switch x.Sort {
	case SInt, SReal:
		switch n.Op {
		case "+", "-", "*":
			return scalar(mk(x.Sort, "(%s %s %s)", n.Op, x.S, y.S), a.Typ), nil
		case "/":
			return scalar(mk(x.Sort, "(div %s %s)", x.S, y.S), a.Typ), nil
		case "%":
			return scalar(mk(x.Sort, "(mod %s %s)", x.S, y.S), a.Typ), nil
		case "<", "<=", ">", ">=":
			return scalar(mk(SBool, "(%s %s %s)", n.Op, x.S, y.S), boolT), nil
		}
	case SStr:
		if n.Op == "+" {
			return scalar(tApp(SStr, "cat", x, y), a.Typ), nil
		}
	}
	return nil, fmt.Errorf("operator %s not supported on sort %s", n.Op, x.Sort)
}

func (e *Env) equal(a, b *Val) (*Term, error) {
	if a.T != nil && b.T != nil {
		if a.T.Sort != b.T.Sort {
			return nil, fmt.Errorf("comparing %s with %s", describe(a), describe(b))
		}
		return tEq(a.T, b.T), nil
	}
	if a.T == nil && b.T == nil && len(a.Fs) == len(b.Fs) {
		var parts []*Term
		for i := range a.Fs {
			t, err := e.equal(a.Fs[i], b.Fs[i])
			if err != nil {
				return nil, err
			}
			parts = append(parts, t)
		}
		return tAnd(parts...), nil
	}
	return nil, fmt.Errorf("comparing %s with %s", describe(a), describe(b))
}

func (e *Env) evalSel(n *ESel) (*Val, error) {
	c := e.c
	// package-qualified name?
	if id, ok := n.X.(*EIdent); ok {
		if _, isVar := e.lookupVar(id.Name); !isVar {
			if _, isLet := e.lookupLet(id.Name); !isLet {
				if e.frame == nil || e.lookupLocalSafe(id.Name) == nil {
					if _, isGhost := c.V.ghosts[id.Name]; !isGhost {
						if p := c.V.findPackage(e.pkg, id.Name); p != nil && (e.pkg == nil || e.pkg.Scope().Lookup(id.Name) == nil) {
							obj := p.Scope().Lookup(n.Name)
							if obj == nil {
								return nil, fmt.Errorf("%s.%s not found", id.Name, n.Name)
							}
							return e.objectVal(obj)
						}
					}
				}
			}
		}
	}
	x, err := e.eval(n.X)
	if err != nil {
		return nil, err
	}
	return e.selectField(x, n.Name)
}

func (e *Env) lookupLocalSafe(name string) *Val {
	if e.frame == nil || e.blk == nil {
		return nil
	}
	return e.lookupLocal(name)
}

func (e *Env) selectField(x *Val, name string) (*Val, error) {
	c := e.c
	if x.Typ == nil {
		return nil, fmt.Errorf("selector .%s on untyped value", name)
	}
	obj, index, _ := types.LookupFieldOrMethod(x.Typ, true, e.pkg, name)
	f, ok := obj.(*types.Var)
	if !ok {
		// unexported field of another package: look it up ignoring package
		if st, isPtr := derefStruct(x.Typ); isPtr != 0 && st != nil {
			for i := 0; i < st.NumFields(); i++ {
				if st.Field(i).Name() == name {
					f = st.Field(i)
					index = []int{i}
					ok = true
				}
			}
		}
		if !ok {
			return nil, fmt.Errorf("no field %s in %s", name, x.Typ)
		}
	}
	_ = f
	cur := x
	for _, idx := range index {
		t := cur.Typ
		if p, isPtr := t.Underlying().(*types.Pointer); isPtr {
			stt, ok := p.Elem().Underlying().(*types.Struct)
			if !ok {
				return nil, fmt.Errorf("selector on pointer to non-struct")
			}
			fld := stt.Field(idx)
			if _, sc := sortOf(fld.Type()); sc {
				if _, isArr := fld.Type().Underlying().(*types.Array); !isArr {
					cur = c.loadField(e.st, cur.T, p.Elem(), fld)
					continue
				}
			}
			cur = scalar(tApp(SV, c.embFun(p.Elem(), fld), cur.T), types.NewPointer(fld.Type()))
			continue
		}
		if _, isStruct := t.Underlying().(*types.Struct); isStruct && len(cur.Fs) > idx {
			cur = cur.Fs[idx]
			continue
		}
		return nil, fmt.Errorf("selector .%s on %s", name, t)
	}
	return cur, nil
}

func derefStruct(t types.Type) (*types.Struct, int) {
	if p, ok := t.Underlying().(*types.Pointer); ok {
		if s, ok := p.Elem().Underlying().(*types.Struct); ok {
			return s, 1
		}
		return nil, 0
	}
	if s, ok := t.Underlying().(*types.Struct); ok {
		return s, 2
	}
	return nil, 0
}

func (e *Env) evalIndex(n *EIndex) (*Val, error) {
	c := e.c
	x, err := e.eval(n.X)
	if err != nil {
		return nil, err
	}
	i, err := e.eval(n.I)
	if err != nil {
		return nil, err
	}
	if i.T == nil {
		return nil, fmt.Errorf("composite index")
	}
	if x.Typ != nil {
		// pointer to struct embedding? no. maps / slices / strings
		switch u := x.Typ.Underlying().(type) {
		case *types.Map:
			mi, err := c.mapInfo(x.Typ)
			if err != nil {
				return nil, err
			}
			// Go semantics: the zero value when the key is absent
			ok := tSelect(tSelect(c.get(e.st, mi.dom, mi.domSort), x.T), i.T)
			v := buildVal(u.Elem(), func(l leaf) *Term {
				key, ks := c.mapValKey(x.Typ, l)
				return tIte(ok, tSelect(tSelect(c.get(e.st, key, ks), x.T), i.T), c.zeroTerm(l.sort))
			})
			return v, nil
		case *types.Slice:
			v := c.slAt(x.T, i.T, u.Elem())
			if v == nil {
				return nil, fmt.Errorf("index of slice with composite elements")
			}
			return v, nil
		case *types.Array:
			v := c.slAt(x.T, i.T, u.Elem())
			if v == nil {
				return nil, fmt.Errorf("index of array with composite elements")
			}
			return v, nil
		case *types.Basic:
			if u.Info()&types.IsString != 0 {
				c.sc.declareFun("str_at", []Sort{SStr, SInt}, SInt)
				return scalar(tApp(SInt, "str_at", x.T, i.T), types.Typ[types.Byte]), nil
			}
		}
	}
	if x.T != nil {
		if _, _, ok := arrParts(x.T.Sort); ok {
			out := &Val{T: tSelect(x.T, i.T)}
			if et := ghostElemText(x.GT); et != "" {
				if strings.HasPrefix(et, "map[") {
					out.GT = et
					out.GPkg = x.GPkg
				} else {
					re := e
					if x.GPkg != nil {
						cp := *e
						cp.pkg = x.GPkg
						re = &cp
					}
					if t, _, err := re.resolveType(et); err == nil {
						out.Typ = t
					}
				}
			}
			return out, nil
		}
	}
	return nil, fmt.Errorf("cannot index %s", describe(x))
}

func (e *Env) evalArgs(args []Expr) ([]*Val, error) {
	var out []*Val
	for _, a := range args {
		v, err := e.eval(a)
		if err != nil {
			return nil, err
		}
		out = append(out, v)
	}
	return out, nil
}

func (e *Env) evalCall(n *ECall) (*Val, error) {
	c := e.c
	boolT := types.Typ[types.Bool]
	if id, ok := n.Fun.(*EIdent); ok {
		switch id.Name {
		case "len":
			a, err := e.evalArgs(n.Args)
			if err != nil {
				return nil, err
			}
			if len(a) != 1 || a[0].T == nil {
				return nil, fmt.Errorf("len: bad argument")
			}
			switch a[0].T.Sort {
			case SStr:
				return scalar(tApp(SInt, "len_s", a[0].T), types.Typ[types.Int]), nil
			case SSl:
				return scalar(tApp(SInt, "slen", a[0].T), types.Typ[types.Int]), nil
			}
			return nil, fmt.Errorf("len of %s", describe(a[0]))
		case "eis":
			a, err := e.evalArgs(n.Args)
			if err != nil {
				return nil, err
			}
			if len(a) != 2 {
				return nil, fmt.Errorf("eis(err, target)")
			}
			c.sc.declareFun("eis", []Sort{SV, SV}, SBool)
			return scalar(tApp(SBool, "eis", a[0].T, a[1].T), boolT), nil
		case "ehead":
			a, err := e.evalArgs(n.Args)
			if err != nil {
				return nil, err
			}
			c.sc.declareFun("ehead", []Sort{SV}, SV)
			rt := c.V.namedType("github.com/ory/fosite", "RFC6749Error")
			var typ types.Type
			if rt != nil {
				typ = types.NewPointer(rt)
			}
			return &Val{T: tApp(SV, "ehead", a[0].T), Typ: typ}, nil
		case "fresh":
			a, err := e.evalArgs(n.Args)
			if err != nil {
				return nil, err
			}
			if e.old == nil {
				return nil, fmt.Errorf("fresh() needs a pre-state")
			}
			return scalar(mk(SBool, "(>= (birth %s) %s)", a[0].T.S, c.clk(e.old).S), boolT), nil
		case "existed":
			a, err := e.evalArgs(n.Args)
			if err != nil {
				return nil, err
			}
			st := e.old
			if st == nil {
				st = e.st
			}
			return scalar(mk(SBool, "(< (birth %s) %s)", a[0].T.S, c.clk(st).S), boolT), nil
		case "typeis":
			if len(n.Args) != 2 {
				return nil, fmt.Errorf("typeis(x, T)")
			}
			a, err := e.eval(n.Args[0])
			if err != nil {
				return nil, err
			}
			tt, _, err := e.resolveType(exprText(n.Args[1]))
			if err != nil {
				return nil, err
			}
			return scalar(tAnd(tNot(tEq(a.T, tNull)), tEq(tApp(SInt, "dyntype", a.T), c.typeID(tt))), boolT), nil
		case "cbpost":
			// cbpost(f): the postconditions of the function literal f for a call that returned a nil error (its other
			// results and its arguments are arbitrary). True when f is not a literal of the calling function with a contract.
			if len(n.Args) < 1 {
				return nil, fmt.Errorf("cbpost(f, args...)")
			}
			fv, err := e.eval(n.Args[0])
			if err != nil {
				return nil, err
			}
			fr := e.frame
			if fr == nil {
				fr = &Frame{c: c}
			}
			cenv, cbc := fr.closureEnv(fv, e.st)
			if cenv == nil {
				return scalar(tTrue, boolT), nil
			}
			fn := fv.Clo.Fn
			// explicit arguments replace the arbitrary ones
			for i, ax := range n.Args[1:] {
				if i >= len(cbc.Params) {
					break
				}
				av, err := e.eval(ax)
				if err != nil {
					return nil, err
				}
				cenv.vars[cbc.Params[i]] = withType(av, fn.Signature.Params().At(i).Type())
			}
			post := cenv.child()
			post.st = e.st
			var rs []*Val
			res := fn.Signature.Results()
			for i := 0; i < res.Len(); i++ {
				if i == res.Len()-1 && res.At(i).Type().String() == "error" {
					rs = append(rs, scalar(tNull, res.At(i).Type()))
				} else {
					rs = append(rs, c.freshVal("cb_res", res.At(i).Type()))
				}
			}
			var rv *Val
			switch len(rs) {
			case 0:
				rv = &Val{}
			case 1:
				rv = rs[0]
			default:
				rv = &Val{Fs: rs}
			}
			cbc.bindResults(post, rv)
			var parts []*Term
			nUnsup := len(c.unsup)
			for _, cl := range cbc.C.Clauses {
				if cl.Kind != "ensures" {
					continue
				}
				t, err := post.evalBool(cl.Expr)
				if err != nil {
					continue // e.g. clauses over old(): the literal's entry state is not known here
				}
				parts = append(parts, t)
			}
			c.unsup = c.unsup[:nUnsup]
			return scalar(tAnd(parts...), boolT), nil
		case "padcopy":
			// padcopy(s, n): the contents of a zeroed [n]byte after copy(arr[:], s), viewed as a slice
			a, err := e.evalArgs(n.Args)
			if err != nil {
				return nil, err
			}
			if len(a) != 2 || a[0].T == nil || a[0].T.Sort != SSl {
				return nil, fmt.Errorf("padcopy([]byte, n)")
			}
			var nn int64
			if _, err := fmt.Sscanf(a[1].T.S, "%d", &nn); err != nil {
				return nil, fmt.Errorf("padcopy: n must be a literal")
			}
			return &Val{T: c.arr2sl(c.copyInto(c.zeroArr(SInt), a[0].T, nn, SInt), nn, SInt), Typ: types.NewSlice(types.Typ[types.Byte])}, nil
		case "trunc":
			// float64 -> int64 conversion as Go does it (toward zero)
			a, err := e.evalArgs(n.Args)
			if err != nil {
				return nil, err
			}
			if len(a) != 1 || a[0].T == nil || a[0].T.Sort != SReal {
				return nil, fmt.Errorf("trunc(float64)")
			}
			fr := &Frame{c: c}
			return fr.convert(nil, a[0], types.Typ[types.Float64], types.Typ[types.Int64]), nil
		case "bytes":
			a, err := e.evalArgs(n.Args)
			if err != nil {
				return nil, err
			}
			if len(a) != 1 || a[0].T == nil || a[0].T.Sort != SStr {
				return nil, fmt.Errorf("bytes(string)")
			}
			fr := &Frame{c: c}
			return fr.convert(nil, a[0], types.Typ[types.String], types.NewSlice(types.Typ[types.Byte])), nil
		case "str":
			a, err := e.evalArgs(n.Args)
			if err != nil {
				return nil, err
			}
			if len(a) != 1 || a[0].T == nil || a[0].T.Sort != SSl {
				return nil, fmt.Errorf("str([]byte)")
			}
			fr := &Frame{c: c}
			return fr.convert(nil, a[0], types.NewSlice(types.Typ[types.Byte]), types.Typ[types.String]), nil
		case "nobytes":
			return scalar(c.mkSlice(SInt, nil), types.NewSlice(types.Typ[types.Byte])), nil
		case "nilbytes":
			return scalar(&Term{"nilsl", SSl}, types.NewSlice(types.Typ[types.Byte])), nil
		case "consttext":
			// consttext(s): s consists of string literals of the program text and their concatenations only
			if len(n.Args) != 1 {
				return nil, fmt.Errorf("consttext(s)")
			}
			x, err := e.eval(n.Args[0])
			if err != nil {
				return nil, err
			}
			if x.T == nil || x.T.Sort != SStr {
				return nil, fmt.Errorf("consttext: not a string")
			}
			return scalar(mk(SBool, "(ctext %s)", x.T.S), types.Typ[types.Bool]), nil
		case "$visited":
			// $visited(k): key k has already been produced by the range-over-map loop this invariant belongs to
			if e.frame == nil || e.blk == nil || len(n.Args) != 1 {
				return nil, fmt.Errorf("$visited(k) is only available in invariants of range-over-map loops")
			}
			a, err := e.eval(n.Args[0])
			if err != nil {
				return nil, err
			}
			for _, in := range e.blk.Instrs {
				if nx, ok := in.(*ssa.Next); ok {
					if rs := e.frame.rangeIt[nx.Iter]; rs != nil && rs.key != "" {
						hi := c.keys[rs.key]
						return scalar(tSelect(c.get(e.st, rs.key, hi.sort), a.T), boolT), nil
					}
				}
			}
			return nil, fmt.Errorf("$visited: loop at block %d is not a range over a map", e.blk.Index)
		case "encoded":
			// encoded(v): what v.Encode() returns for a url.Values v in the current state
			a, err := e.evalArgs(n.Args)
			if err != nil {
				return nil, err
			}
			if len(a) != 1 || a[0].Typ == nil {
				return nil, fmt.Errorf("encoded(values)")
			}
			if _, ok := a[0].Typ.Underlying().(*types.Map); !ok {
				return nil, fmt.Errorf("encoded: not a map")
			}
			return scalar(c.valuesEncode(e.st, a[0].T, a[0].Typ), types.Typ[types.String]), nil
		case "jsonenc":
			// jsonenc(T, f1, f2, ...): the JSON encoding of a struct value of type T with the given scalar fields
			if len(n.Args) < 1 {
				return nil, fmt.Errorf("jsonenc(T, fields...)")
			}
			tt, _, err := e.resolveType(exprText(n.Args[0]))
			if err != nil {
				return nil, err
			}
			a, err := e.evalArgs(n.Args[1:])
			if err != nil {
				return nil, err
			}
			var sorts []Sort
			var ts []*Term
			ls := leavesOf(tt)
			if len(ls) != len(a) {
				return nil, fmt.Errorf("jsonenc: %s has %d scalar fields, %d given", tt, len(ls), len(a))
			}
			for i, l := range ls {
				if a[i].T == nil || a[i].T.Sort != l.sort {
					return nil, fmt.Errorf("jsonenc: field %d is %s, want %s", i, describe(a[i]), l.sort)
				}
				sorts = append(sorts, l.sort)
				ts = append(ts, a[i].T)
			}
			fn := smtName("jsonenc_" + typeKey(tt))
			c.sc.declareFun(fn, sorts, SSl)
			return scalar(tApp(SSl, fn, ts...), types.NewSlice(types.Typ[types.Byte])), nil
		case "addr":
			// addr(p.f): the address of struct-typed field f of object p (e.g. a mutex)
			if len(n.Args) != 1 {
				return nil, fmt.Errorf("addr(p.f)")
			}
			sel, ok := n.Args[0].(*ESel)
			if !ok {
				return nil, fmt.Errorf("addr(p.f)")
			}
			base, err := e.eval(sel.X)
			if err != nil {
				return nil, err
			}
			pt, ok := base.Typ.Underlying().(*types.Pointer)
			if !ok {
				return nil, fmt.Errorf("addr: %s is not a pointer", describe(base))
			}
			stt, ok := pt.Elem().Underlying().(*types.Struct)
			if !ok {
				return nil, fmt.Errorf("addr: not a struct pointer")
			}
			for i := 0; i < stt.NumFields(); i++ {
				if stt.Field(i).Name() == sel.Name {
					return scalar(tApp(SV, c.embFun(pt.Elem(), stt.Field(i)), base.T), types.NewPointer(stt.Field(i).Type())), nil
				}
			}
			return nil, fmt.Errorf("addr: no field %s", sel.Name)
		case "unbox":
			// unbox(x, T): the value of non-reference type T held in interface value x
			if len(n.Args) != 2 {
				return nil, fmt.Errorf("unbox(x, T)")
			}
			a, err := e.eval(n.Args[0])
			if err != nil {
				return nil, err
			}
			tt, ts, err := e.resolveType(exprText(n.Args[1]))
			if err != nil {
				return nil, err
			}
			fr := &Frame{c: c}
			_, u := fr.boxFun(tt, ts)
			return &Val{T: tApp(ts, u, a.T), Typ: tt}, nil
		case "cast":
			// cast(x, T): reinterpret a V value with a static Go type (for field access)
			if len(n.Args) != 2 {
				return nil, fmt.Errorf("cast(x, T)")
			}
			a, err := e.eval(n.Args[0])
			if err != nil {
				return nil, err
			}
			tt, _, err := e.resolveType(exprText(n.Args[1]))
			if err != nil {
				return nil, err
			}
			return &Val{T: a.T, Typ: tt}, nil
		case "upd":
			a, err := e.evalArgs(n.Args)
			if err != nil {
				return nil, err
			}
			if len(a) != 3 || a[0].T == nil {
				return nil, fmt.Errorf("upd(map, key, value)")
			}
			if _, _, ok := arrParts(a[0].T.Sort); !ok {
				return nil, fmt.Errorf("upd: first argument is not a ghost map")
			}
			return &Val{T: tStore(a[0].T, a[1].T, a[2].T)}, nil
		case "implements":
			if len(n.Args) != 2 {
				return nil, fmt.Errorf("implements(x, Iface)")
			}
			a, err := e.eval(n.Args[0])
			if err != nil {
				return nil, err
			}
			tt, _, err := e.resolveType(exprText(n.Args[1]))
			if err != nil {
				return nil, err
			}
			c.sc.declareFun("implements", []Sort{SInt, SInt}, SBool)
			if a.Typ != nil && types.IsInterface(tt) && types.IsInterface(a.Typ) && types.AssignableTo(a.Typ, tt) {
				// statically known: every non-nil value of the static type implements the interface
				return scalar(tNot(tEq(a.T, tNull)), boolT), nil
			}
			return scalar(tAnd(tNot(tEq(a.T, tNull)), tApp(SBool, "implements", tApp(SInt, "dyntype", a.T), c.typeID(tt))), boolT), nil
		case "dom":
			a, err := e.evalArgs(n.Args)
			if err != nil {
				return nil, err
			}
			mi, err := c.mapInfo(a[0].Typ)
			if err != nil {
				return nil, err
			}
			return &Val{T: tSelect(c.get(e.st, mi.dom, mi.domSort), a[0].T)}, nil
		case "call":
			a, err := e.evalArgs(n.Args)
			if err != nil {
				return nil, err
			}
			if len(a) < 1 || a[0].Typ == nil {
				return nil, fmt.Errorf("call(f, args...) needs a typed function value")
			}
			sig, ok := a[0].Typ.Underlying().(*types.Signature)
			if !ok {
				return nil, fmt.Errorf("call: not a function value")
			}
			return c.applyFuncValue(a[0], a[1:], sig)
		}
		if strings.HasPrefix(id.Name, "$body:") {
			if sf, ok := c.V.specs[id.Name[6:]]; ok {
				return e.applySpecBody(sf, n.Args, true)
			}
		}
		if sf, ok := c.V.specs[id.Name]; ok {
			return e.applySpec(sf, n.Args)
		}
		// pure Go function of this package
		if obj := e.lookupObject(id.Name); obj != nil {
			if f, ok := obj.(*types.Func); ok {
				a, err := e.evalArgs(n.Args)
				if err != nil {
					return nil, err
				}
				a = e.coerceArgs(f.Type().(*types.Signature), a)
				a = c.packVariadic(f.Type().(*types.Signature), a)
				return c.pureFuncApp(f, nil, a)
			}
		}
		return nil, fmt.Errorf("unknown function %s", id.Name)
	}
	if sel, ok := n.Fun.(*ESel); ok {
		// pkg.Func(...)
		if id, ok := sel.X.(*EIdent); ok {
			if _, isVar := e.lookupVar(id.Name); !isVar && e.lookupLocalSafe(id.Name) == nil {
				if _, isLet := e.lookupLet(id.Name); !isLet {
					if p := c.V.findPackage(e.pkg, id.Name); p != nil {
						if f, ok := p.Scope().Lookup(sel.Name).(*types.Func); ok {
							a, err := e.evalArgs(n.Args)
							if err != nil {
								return nil, err
							}
							a = e.coerceArgs(f.Type().(*types.Signature), a)
							a = c.packVariadic(f.Type().(*types.Signature), a)
							return c.pureFuncApp(f, nil, a)
						}
					}
				}
			}
		}
		recv, err := e.eval(sel.X)
		if err != nil {
			return nil, err
		}
		a, err := e.evalArgs(n.Args)
		if err != nil {
			return nil, err
		}
		if recv.Typ == nil {
			return nil, fmt.Errorf("method call .%s on untyped value", sel.Name)
		}
		obj, _, _ := types.LookupFieldOrMethod(recv.Typ, true, e.pkg, sel.Name)
		m, ok := obj.(*types.Func)
		if !ok {
			// field holding a function value?
			if fv, ok := obj.(*types.Var); ok {
				fval, err := e.selectField(recv, fv.Name())
				if err != nil {
					return nil, err
				}
				if sig, ok := fv.Type().Underlying().(*types.Signature); ok {
					return c.applyFuncValue(fval, a, sig)
				}
			}
			return nil, fmt.Errorf("no method %s on %s", sel.Name, recv.Typ)
		}
		if !types.IsInterface(m.Type().(*types.Signature).Recv().Type()) {
			// concrete method: must be a function declared pure
			if bc := c.V.contractFor(m.FullName()); bc != nil && bc.C.Pure {
				a = c.packVariadic(m.Type().(*types.Signature), a)
				return c.pureFuncApp(m, nil, append([]*Val{recv}, a...))
			}
			return nil, fmt.Errorf("method %s is not declared pure", m.FullName())
		}
		return c.pureMethodApp(e.st, m, recv, a)
	}
	return nil, fmt.Errorf("unsupported call expression")
}

// coerceArgs loads struct values for parameters of struct type when the contract expression produced the
// address of the (sub)object.
func (e *Env) coerceArgs(sig *types.Signature, args []*Val) []*Val {
	out := append([]*Val{}, args...)
	for i := 0; i < sig.Params().Len() && i < len(out); i++ {
		pt := sig.Params().At(i).Type()
		if _, isStruct := pt.Underlying().(*types.Struct); !isStruct || isOpaqueStruct(pt) {
			continue
		}
		a := out[i]
		if a.T != nil && a.Typ != nil {
			if p, ok := a.Typ.Underlying().(*types.Pointer); ok && types.Identical(p.Elem(), pt) {
				out[i] = e.c.loadObj(e.st, a.T, pt)
			}
		}
	}
	return out
}

func exprText(x Expr) string {
	switch n := x.(type) {
	case *EIdent:
		return n.Name
	case *ESel:
		return exprText(n.X) + "." + n.Name
	case *EUnary:
		return n.Op + exprText(n.X)
	case *EBinary:
		if n.Op == "*" {
			return exprText(n.L) + "*" + exprText(n.R)
		}
	}
	return fmt.Sprintf("%v", x)
}

func (e *Env) applySpec(sf *SpecFunc, args []Expr) (*Val, error) {
	return e.applySpecBody(sf, args, false)
}

func (e *Env) applySpecBody(sf *SpecFunc, args []Expr, forceBody bool) (*Val, error) {
	c := e.c
	a, err := e.evalArgs(args)
	if err != nil {
		return nil, err
	}
	// types and identifiers of a spec function resolve in the package that defines it
	if sp, ok := sf.Pkg.(*types.Package); ok && sp != nil && sp != e.pkg {
		cp := *e
		cp.pkg = sp
		e = &cp
	}
	if len(a) != len(sf.Params) {
		return nil, fmt.Errorf("spec func %s: %d arguments, want %d", sf.Name, len(a), len(sf.Params))
	}
	if sf.Body == nil || (sf.Opaque && !forceBody) {
		// uninterpreted
		var sorts []Sort
		var ts []*Term
		for i, p := range sf.Params {
			_, s, err := e.resolveType(p.Type)
			if err != nil {
				return nil, err
			}
			if a[i].T == nil || a[i].T.Sort != s {
				return nil, fmt.Errorf("spec func %s: argument %d is %s, want %s", sf.Name, i, describe(a[i]), s)
			}
			sorts = append(sorts, s)
			ts = append(ts, a[i].T)
		}
		rt, rs, err := e.resolveType(sf.Result)
		if err != nil {
			return nil, err
		}
		name := "sf_" + sf.Name
		c.sc.declareFun(name, sorts, rs)
		return &Val{T: tApp(rs, name, ts...), Typ: rt}, nil
	}
	if e.expanding == nil {
		e.expanding = map[string]bool{}
	}
	if e.expanding["spec:"+sf.Name] {
		return nil, fmt.Errorf("recursive spec func %s (declare it without body and give axioms)", sf.Name)
	}
	ne := &Env{c: c, pkg: e.pkg, vars: map[string]*Val{}, lets: map[string]Expr{}, st: e.st, old: e.old, qdepth: e.qdepth, expanding: e.expanding, isBinder: true}
	for i, p := range sf.Params {
		t, _, err := e.resolveType(p.Type)
		if err != nil {
			return nil, err
		}
		v := *a[i]
		if t != nil {
			v.Typ = t
		}
		ne.vars[p.Name] = &v
	}
	e.expanding["spec:"+sf.Name] = true
	defer delete(e.expanding, "spec:"+sf.Name)
	return ne.eval(sf.Body)
}

func (e *Env) dbgVars() []string {
	var out []string
	for x := e; x != nil; x = x.parent {
		for k := range x.vars {
			out = append(out, k)
		}
		out = append(out, "|")
	}
	return out
}
