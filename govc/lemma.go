package main

func (v *Verifier) lemmaObligations(prop string) ([]*Obligation, []string) {
	return nil, nil
}
