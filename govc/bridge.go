package main

import (
	"go/types"
	"sort"
	"strings"

	"golang.org/x/tools/go/ssa"
)

// An afBridge says that, for receivers of dynamic type typ, the pure interface method (abstract field) is
// implemented by a trivial getter "return recv.<path>.<field>": the abstract field of such an object IS that
// concrete field. Bridges are computed from the SSA of the current source, so a getter that stops being trivial
// simply loses its bridge (and the proofs that needed it fail to "unknown" rather than passing wrongly).
type afBridge struct {
	typ   types.Type   // dynamic type of the receiver (a pointer to a named struct)
	path  []*types.Var // embedded fields from the outer struct to the struct declaring field
	owner types.Type   // struct type declaring field
	field *types.Var
}

func (v *Verifier) computeBridges() {
	v.bridges = map[string][]*afBridge{}
	var ifaces []*types.Named
	var concretes []*types.Named
	for _, p := range v.pkgs {
		if p.Types == nil || !strings.HasPrefix(p.Types.Path(), repoModule) {
			continue
		}
		sc := p.Types.Scope()
		names := sc.Names()
		sort.Strings(names)
		for _, n := range names {
			tn, ok := sc.Lookup(n).(*types.TypeName)
			if !ok || tn.IsAlias() {
				continue
			}
			named, ok := tn.Type().(*types.Named)
			if !ok || named.TypeParams().Len() > 0 {
				continue
			}
			if types.IsInterface(named) {
				ifaces = append(ifaces, named)
			} else if _, isStruct := named.Underlying().(*types.Struct); isStruct {
				concretes = append(concretes, named)
			}
		}
	}
	for _, in := range ifaces {
		it := in.Underlying().(*types.Interface)
		for k := 0; k < it.NumMethods(); k++ {
			m := it.Method(k)
			sig := m.Type().(*types.Signature)
			if sig.Params().Len() != 0 || sig.Results().Len() != 1 || !v.isPureIface(m) {
				continue
			}
			rs, ok := sortOf(sig.Results().At(0).Type())
			if !ok {
				continue
			}
			key := v.canonMethod(m)
			seen := map[string]bool{}
			for _, b := range v.bridges[key] {
				seen[b.typ.String()] = true
			}
			for _, ct := range concretes {
				pt := types.NewPointer(ct)
				if seen[pt.String()] || !types.Implements(pt, it) {
					continue
				}
				sel := v.prog.MethodSets.MethodSet(pt).Lookup(m.Pkg(), m.Name())
				if sel == nil {
					continue
				}
				decl, ok := sel.Obj().(*types.Func)
				if !ok {
					continue
				}
				b := v.getterBridge(pt, ct, sel.Index(), decl, rs)
				if b != nil {
					v.bridges[key] = append(v.bridges[key], b)
				}
			}
		}
	}
}

// getterBridge recognises "func (r *S) M() T { return r.f }" reached from *outer through value embeddings.
func (v *Verifier) getterBridge(pt types.Type, outer *types.Named, index []int, decl *types.Func, rs Sort) *afBridge {
	fn := v.prog.FuncValue(decl)
	if fn == nil || len(fn.Blocks) != 1 || len(fn.Params) != 1 {
		return nil
	}
	recvPtr, ok := fn.Params[0].Type().Underlying().(*types.Pointer)
	if !ok {
		return nil
	}
	var ins []ssa.Instruction
	for _, in := range fn.Blocks[0].Instrs {
		if _, dbg := in.(*ssa.DebugRef); dbg {
			continue
		}
		ins = append(ins, in)
	}
	if len(ins) != 3 {
		return nil
	}
	fa, ok1 := ins[0].(*ssa.FieldAddr)
	ld, ok2 := ins[1].(*ssa.UnOp)
	ret, ok3 := ins[2].(*ssa.Return)
	if !ok1 || !ok2 || !ok3 || fa.X != fn.Params[0] || ld.X != fa || len(ret.Results) != 1 || ret.Results[0] != ld {
		return nil
	}
	owner := recvPtr.Elem()
	stt, ok := owner.Underlying().(*types.Struct)
	if !ok {
		return nil
	}
	field := stt.Field(fa.Field)
	if fs, ok := sortOf(field.Type()); !ok || fs != rs {
		return nil
	}
	if _, isArr := field.Type().Underlying().(*types.Array); isArr {
		return nil
	}
	// embedding path: value embeddings only
	var path []*types.Var
	var cur types.Type = outer
	for _, idx := range index[:len(index)-1] {
		cs, ok := cur.Underlying().(*types.Struct)
		if !ok {
			return nil
		}
		f := cs.Field(idx)
		if _, isStruct := f.Type().Underlying().(*types.Struct); !isStruct {
			return nil
		}
		path = append(path, f)
		cur = f.Type()
	}
	if !types.Identical(cur, owner) {
		return nil
	}
	return &afBridge{typ: pt, path: path, owner: owner, field: field}
}

// bridgeBase is the reference of the struct that declares the bridged field, inside the object recv.
func (c *Ctx) bridgeBase(b *afBridge, recv *Term) *Term {
	base := recv
	var cur types.Type = b.typ.(*types.Pointer).Elem()
	for _, f := range b.path {
		base = tApp(SV, c.embFun(cur, f), base)
		cur = f.Type()
	}
	return base
}

func (c *Ctx) bridgesOf(m *types.Func) []*afBridge {
	if !c.bridging {
		return nil
	}
	return c.V.bridges[c.V.canonMethod(m)]
}

// bridgedRead wraps the abstract-field value t of receiver recv.
func (c *Ctx) bridgedRead(st *State, m *types.Func, recv *Term, t *Term) *Term {
	for _, b := range c.bridgesOf(m) {
		cond := tEq(tApp(SInt, "dyntype", recv), c.typeID(b.typ))
		val := c.loadField(st, c.bridgeBase(b, recv), b.owner, b.field).T
		t = tIte(cond, c.coerce(val, t.Sort), t)
	}
	return t
}

// bridgedWrite stores val (or a fresh value when val is nil) into the concrete fields behind m at recv.
func (c *Ctx) bridgedWrite(st *State, m *types.Func, recv *Term, val *Term) {
	for _, b := range c.bridgesOf(m) {
		s, _ := sortOf(b.field.Type())
		k := fieldKey(b.owner, b.field)
		cur := c.get(st, k, ArrSort(SV, s))
		base := c.bridgeBase(b, recv)
		nv := val
		if nv == nil {
			nv = c.sc.freshConst("mod_"+b.field.Name(), s)
		}
		cond := tEq(tApp(SInt, "dyntype", recv), c.typeID(b.typ))
		c.set(st, k, tStore(cur, base, tIte(cond, c.coerce(nv, s), tSelect(cur, base))))
	}
}
